"""C10 — aggregating verbs equal first-principles recomputation, group by group (DESIGN 3/C10).

Pipeline: (1) Coq theorems over the Gallina model (coq/C10), (2) correspondence: the scratch-built mlr and the model
(vm_compute) on the same generated record streams, (3) an independent definitional oracle (exact rationals, groups keyed
by the TUPLE of group-by texts) evaluated on mlr's own output: the failing-input search.
"""
import json, os, re
from fractions import Fraction
from vlib import *

IFLAGS = ["--idkvp", "--ifs", ";", "--ips", ":", "--ojsonl", "--jvquoteall", "--no-auto-unflatten"]
NUMRE = re.compile(r"^[+-]?(\d+\.?\d*|\.\d+)([eE][+-]?\d+)?$")
INTRE = re.compile(r"^-?(0|[1-9]\d*)$")
DECRE = re.compile(r"^-?(0|[1-9]\d*)\.\d+$")
I64 = (-2 ** 63, 2 ** 63 - 1)


# ------------------------------------------------------------------ numbers (same sub-grammar as Model.classify)
def classify(t):
    """('void',) | ('int', n) | ('flt', Fraction) | ('str',)"""
    if t == "":
        return ("void",)
    if INTRE.match(t) and t != "-0":
        n = int(t)
        return ("int", n) if I64[0] <= n <= I64[1] else ("flt", Fraction(n))
    if DECRE.match(t):
        return ("flt", Fraction(t))
    return ("str",)


def numq(t):
    c = classify(t)
    return Fraction(c[1]) if c[0] in ("int", "flt") else None


def obs_q(t):
    return Fraction(t) if NUMRE.match(t) else None


def close(q, o, eps=Fraction(1, 10 ** 9)):
    return o is not None and abs(o - q) <= eps * max(1, abs(q))


def sq_close(scale, q2, o):
    d = Fraction(1, 10 ** 8) * max(1, abs(o))
    return abs(o * o * scale - q2) <= (3 * abs(o) * d + d * d) * scale


# ------------------------------------------------------------------ running mlr
def run_mlr(ctx, args, recs):
    inp = dkvp(recs, ifs=";", ips=":")
    st, out, err = mlr_run(ctx, IFLAGS + args, inp, timeout=30)
    if st == "hang":            # a loaded machine is not a hang: confirm with a long timeout before calling it one
        st, out, err = mlr_run(ctx, IFLAGS + args, inp, timeout=300)
    cls = classify_run(st, err)
    if cls != "ok":
        return cls, None, err.decode("utf-8", "replace")[-600:]
    rows = []
    try:
        for line in out.decode("utf-8").splitlines():
            if line.strip():
                rows.append(json.loads(line, object_pairs_hook=lambda kv: [(k, v if isinstance(v, str) else json.dumps(v)) for k, v in kv]))
    except Exception as ex:
        return "unparseable", None, repr(ex) + out.decode("utf-8", "replace")[:400]
    return "ok", rows, ""


def run_impl_batch(ctx, cases):
    """[(args, recs)] -> [(cls, rows, err)] through `implrun c10-verb` (the verb's own ParseCLI + Transform, in-process)"""
    inp = "".join(json.dumps({"args": a, "records": [[[k, v] for k, v in r] for r in recs]}) + "\n" for a, recs in cases)
    rc, out, err = sh([ctx.implrun(), "c10-verb"], inp=inp, timeout=900)
    lines = out.splitlines()
    if rc != 0 or len(lines) != len(cases):
        raise RuntimeError(f"implrun c10-verb failed rc={rc} lines={len(lines)}/{len(cases)}: {err[-800:]}")
    res = []
    for l in lines:
        o = json.loads(l)
        if "panic" in o:
            res.append(("panic", None, o["panic"]))
        elif "error" in o:
            res.append(("mlr_error", None, o["error"]))
        else:
            res.append(("ok", [[(k, v) for k, v in r] for r in o.get("records", [])], ""))
    return res


# ------------------------------------------------------------------ Coq rendering
def coq_q(q):
    q = Fraction(q)
    return f"(Qmake {coq_z(q.numerator)} {q.denominator}%positive)"


ACC_COQ = {"count": "ACount", "null_count": "ANullCount", "distinct_count": "ADistinctCount", "mode": "AMode", "antimode": "AAntimode",
           "sum": "ASum", "mean": "AMean", "var": "AVar", "stddev": "AStddev", "meaneb": "AMeanEB", "skewness": "ASkewness",
           "kurtosis": "AKurtosis", "min": "AMin", "max": "AMax", "minlen": "AMinLen", "maxlen": "AMaxLen", "mad": "AMad"}


def acc_p(name):
    if name == "median":
        return Fraction(50)
    if re.fullmatch(r"p-?\d+(\.\d+)?", name):
        return Fraction(name[1:])
    return None


def coq_accname(name):
    p = acc_p(name)
    return f"(APctl {coq_q(p)})" if p is not None else ACC_COQ[name]


def coq_acc(name):
    return f"({coq_accname(name)}, {coq_bytes(name) if acc_p(name) is not None else '[]'})"


def stepper_parts(name):
    """('delta', 3) for delta_3; ('shift_lag', 1) for shift"""
    for base, canon in (("shift_lead", "shift_lead"), ("shift_lag", "shift_lag"), ("shift", "shift_lag"), ("delta", "delta"), ("ratio", "ratio")):
        if name == base:
            return canon, 1
        m = re.fullmatch(base + r"_(\d+)", name)
        if m:
            return canon, int(m.group(1))
    return name, 0


def coq_stepper(name, s):
    base, n = stepper_parts(name)
    c = {"delta": "SDelta", "ratio": "SRatio", "shift_lag": "SShiftLag", "shift_lead": "SShiftLead"}
    if base in c:
        return f"({c[base]} {n}%nat, {coq_bytes(name)})"
    if base == "ewma":
        al = coq_list([f"({coq_q(Fraction(a))}, {coq_bytes(sfx)})" for a, sfx in zip(s["alphas"], s.get("suffixes") or s["alphas"])])
        return f"(SEwma {al}, {coq_bytes(name)})"
    simple = {"counter": "SCounter", "rsum": "SRsum", "rprod": "SRprod", "from-first": "SFromFirst"}[base]
    return f"({simple}, {coq_bytes(name.replace('-', '_'))})"          # the output field of from-first is <field>_from_first


def coq_names(l):
    return coq_list([coq_bytes(x) for x in l])


def coq_obs(rows):
    def v(t):
        q = obs_q(t)
        return f"({coq_bytes(t)}, {'None' if q is None else 'Some ' + coq_q(q)})"
    return "[" + ";\n  ".join("[" + "; ".join(f"({coq_bytes(k)}, {v(t)})" for k, t in r) + "]" for r in rows) + "]"


def coq_spec(s):
    k = s["verb"]
    if k == "count":
        gs = "None" if s["gs"] is None else f"(Some {coq_names(s['gs'])})"
        return f"(SCount {gs} {coq_bool(s['n'])} {coq_bytes(s['out'])})"
    if k == "uniq":
        return f"(SUniq {coq_names(s['gs'])} {coq_bool(s['c'])} {coq_bool(s['n'])} {coq_bytes(s['out'])})"
    if k == "count-distinct-u":
        return f"(SCountDistinctU {coq_names(s['gs'])})"
    if k == "count-similar":
        return f"(SCountSimilar {coq_names(s['gs'])} {coq_bytes(s['out'])})"
    if k == "dsl":
        return f"(SAcc {coq_bool(s['interp'])} {coq_accname(s['acc'])} {coq_names(s['xs'])})"
    if k == "pctl-grid":
        return f"(SPctls {coq_bool(s['interp'])} {coq_list([coq_q(Fraction(p)) for p in s['ps']])} {coq_names(s['xs'])})"
    if k == "fraction":
        return f"(SFraction {coq_names(s['fs'])} {coq_names(s['gs'])} {coq_bool(s['p'])} {coq_bool(s['c'])})"
    if k == "step":
        return f"(SStep {coq_list([coq_stepper(a, s) for a in s['steppers']])} {coq_names(s['fs'])} {coq_names(s['gs'])})"
    if k == "merge-fields":
        mode = {"f": "MFNames", "r": "MFSubs", "c": "MFCollapse"}[s["mode"]]
        return (f"(SMergeFields {coq_bool(s['interp'])} {coq_bool(s['k'])} {coq_list([coq_acc(a) for a in s['accs']])} "
                f"({mode} {coq_names(s['names'])}) {coq_bytes(s['o'])})")
    if k == "histogram":
        return f"(SHistogram {coq_q(s['lo'])} {coq_q(s['hi'])} {s['nbins']} {coq_bytes(s['o'])} {coq_names(s['fs'])})"
    if k == "top":
        return f"(STop {s['n']}%nat {coq_bool(not s['min'])} {coq_bytes(s['out'])} {coq_names(s['fs'])} {coq_names(s['gs'])})"
    if k in ("most-frequent", "least-frequent"):
        return f"(SFrequent {coq_bool(k == 'most-frequent')} {s['maxn']}%nat {coq_bool(not s['b'])} {coq_bytes(s['out'])} {coq_names(s['gs'])})"
    if k == "fill-down":
        return f"(SFillDown {coq_bool(s['all'])} {coq_bool(s['only_if_absent'])} {coq_names(s['fs'])})"
    if k == "stats1":
        accs = coq_list([coq_acc(a) for a in s["accs"]])
        if s.get("w"):
            return f"(SStats1W {coq_bool(s['interp'])} {accs} {coq_names(s['fs'])} {coq_names(s['gs'])} {s['w']}%nat)"
        return f"(SStats1 {coq_bool(s['interp'])} {accs} {coq_names(s['fs'])} {coq_names(s['gs'])})"
    if k in EXT_VERBS:                     # ---- extension block (Verbs3.v), see "extension: verbs of Verbs3.v" below
        return coq_spec_ext(s)
    raise KeyError(k)


def mlr_args(s):
    k = s["verb"]
    if k == "pctl-grid":
        return ["-n", "put", "end{print percentiles([%s], [%s], {\"oa\":true%s})}" % (",".join(s["xs"]), ",".join(str(p) for p in s["ps"]), ",\"il\":true" if s["interp"] else "")]
    if k == "dsl":
        return ["--ijsonl", "--ojsonl", "put", "-q", "<DSL_PROG>", json.dumps(s.get("dsl"))]
    if k == "count":
        a = ["count"] + (["-g", ",".join(s["gs"])] if s["gs"] is not None else []) + (["-n"] if s["n"] else [])
        return a + (["-o", s["out"]] if s["out"] != "count" else [])
    if k == "uniq":
        if s.get("as_count_distinct"):
            return ["count-distinct", "-f", ",".join(s["gs"])] + (["-n"] if s["n"] else []) + (["-o", s["out"]] if s["out"] != "count" else [])
        return ["uniq", "-g", ",".join(s["gs"])] + (["-c"] if s["c"] else []) + (["-n"] if s["n"] else []) + (["-o", s["out"]] if s["out"] != "count" else [])
    if k == "count-distinct-u":
        return ["count-distinct", "-u", "-f", ",".join(s["gs"])]
    if k == "count-similar":
        return ["count-similar", "-g", ",".join(s["gs"])] + (["-o", s["out"]] if s["out"] != "count" else [])
    if k == "step":
        a = ["step", "-a", ",".join(s["steppers"]), "-f", ",".join(s["fs"])] + (["-g", ",".join(s["gs"])] if s["gs"] else [])
        if "ewma" in s["steppers"]:
            a += ["-d", ",".join(s["alphas"])] + (["-o", ",".join(s["suffixes"])] if s.get("suffixes") else [])
        return a
    if k == "merge-fields":
        return (["merge-fields", "-a", ",".join(s["accs"]), "-" + s["mode"], ",".join(s["names"])] + (["-o", s["o"]] if s["mode"] != "c" else [])
                + (["-k"] if s["k"] else []) + (["-i"] if s["interp"] else []))
    if k == "histogram":
        def ftxt(q):
            return str(q.numerator) if q.denominator == 1 else str(float(q))
        return (["histogram", "-f", ",".join(s["fs"]), "--lo", ftxt(s["lo"]), "--hi", ftxt(s["hi"]), "--nbins", str(s["nbins"])]
                + (["-o", s["o"]] if s["o"] else []))
    if k == "fill-down":
        return ["fill-down"] + (["--all"] if s["all"] else ["-f", ",".join(s["fs"])]) + (["-a"] if s["only_if_absent"] else [])
    if k in ("most-frequent", "least-frequent"):
        return [k, "-f", ",".join(s["gs"])] + (["-n", str(s["maxn"])] if s["maxn"] != 10 else []) + (["-b"] if s["b"] else []) + (["-o", s["out"]] if s["out"] != "count" else [])
    if k == "fraction":
        return ["fraction", "-f", ",".join(s["fs"])] + (["-g", ",".join(s["gs"])] if s["gs"] else []) + (["-p"] if s["p"] else []) + (["-c"] if s["c"] else [])
    if k == "top":
        return ["top", "-f", ",".join(s["fs"])] + (["-g", ",".join(s["gs"])] if s["gs"] else []) + (["-n", str(s["n"])] if s["n"] != 1 else []) + (["--min"] if s["min"] else []) + (["-o", s["out"]] if s["out"] != "top_idx" else [])
    if k == "stats1":
        return (["stats1", "-a", ",".join(s["accs"]), "-f", ",".join(s["fs"])] + (["-g", ",".join(s["gs"])] if s["gs"] else [])
                + (["-i"] if s["interp"] else []) + (["-w", str(s["w"])] if s.get("w") else []))
    if k in EXT_VERBS:                     # ---- extension block (Verbs3.v)
        return mlr_args_ext(s)
    raise KeyError(k)


# ------------------------------------------------------------------ definitional oracle (independent of the Coq model)
JOINED_KEYS = [False]     # True only while asking "is the difference explained by the comma-joined grouping key alone?"


def gkey(d, gs):
    """group key of a record (dict) in the oracles that keep their own per-group state: the tuple of texts; the comma-joined text only
    while classify_witness asks whether the joined key alone explains a difference (same switch as groups_of)"""
    k = tuple(d[g] for g in gs)
    return ",".join(k) if JOINED_KEYS[0] else k


def groups_of(recs, gs):
    """first-appearance-ordered groups keyed by the TUPLE of exact group-by texts; records lacking a field are left out.
    Returns [(texts of the first member, members)]."""
    order, members, shown = [], {}, {}
    for r in recs:
        d = dict(r)
        if any(g not in d for g in gs):
            continue
        k = tuple(d[g] for g in gs)
        kk = ",".join(k) if JOINED_KEYS[0] else k
        if kk not in members:
            members[kk] = []
            shown[kk] = k
            order.append(kk)
        members[kk].append(r)
    return [(shown[kk], members[kk]) for kk in order]


def vlt(a, b):
    qa, qb = numq(a), numq(b)
    if qa is not None and qb is not None:
        return qa < qb
    if qa is not None:
        return True
    if qb is not None:
        return False
    return a.encode() < b.encode()


def sort_vals(vs):
    import functools
    return sorted(vs, key=functools.cmp_to_key(lambda a, b: -1 if vlt(a, b) else (1 if vlt(b, a) else 0)))


def expect_acc(name, vals, interp):
    """definition of accumulator `name` over the contributing values (texts, in arrival order).
    Returns a predicate description: ('int', n) | ('flt', q) | ('sqrt', q) | ('pow15', nu, de) | ('text', t) | ('void',) | ('nan',) | ('val', text)"""
    nonvoid = [v for v in vals if v != ""]
    nums = [v for v in nonvoid if numq(v) is not None]
    qs = [numq(v) for v in nums]
    allint = all(classify(v)[0] == "int" for v in nums)
    n = len(qs)
    if name == "count":
        return ("int", len(nonvoid))
    if name == "null_count":
        return ("int", sum(1 for v in vals if v == ""))
    if name == "distinct_count":
        return ("int", len(set(nonvoid)))
    if name in ("mode", "antimode"):
        if not nonvoid:
            return ("void",)
        cnt = {}
        for v in nonvoid:
            cnt[v] = cnt.get(v, 0) + 1
        best = max(cnt.values()) if name == "mode" else min(cnt.values())
        return ("text", next(v for v in nonvoid if cnt[v] == best))
    if name == "sum":
        s = sum(qs, Fraction(0))
        return ("int", int(s)) if allint and I64[0] <= s <= I64[1] else ("flt", s)
    if name == "mean":
        if n == 0:
            return ("void",)
        s = sum(qs, Fraction(0))
        m = s / n
        return ("int", int(m)) if allint and m.denominator == 1 and I64[0] <= s <= I64[1] else ("flt", m)
    if name in ("var", "stddev", "meaneb", "skewness", "kurtosis"):
        if n < 2:
            return ("void",)
        m = sum(qs) / n
        d2 = sum((x - m) ** 2 for x in qs)
        if name == "var":
            return ("flt", d2 / (n - 1))
        if name == "stddev":
            return ("sqrt", d2 / (n - 1))
        if name == "meaneb":
            return ("sqrt", d2 / (n - 1) / n)
        if d2 == 0:
            return ("nan",)
        if name == "skewness":
            # numerator sum (x-mean)^3 / n ; denominator pow(sum (x-mean)^2 / (n-1), 1.5): this is what the reference
            # documentation's worked example gives (reference-dsl-builtin-functions.md: skewness([4,5,9,10,11]) is -0.2097285)
            return ("pow15", sum((x - m) ** 3 for x in qs) / n, d2 / (n - 1))
        return ("flt", (sum((x - m) ** 4 for x in qs) / n) / (d2 / n) ** 2 - 3)
    if name in ("min", "max"):
        if not nonvoid:
            return ("void",)
        strs = [v for v in nonvoid if numq(v) is None]
        if name == "min" and nums or name == "max" and not strs:
            q = min(qs) if name == "min" else max(qs)
            return ("int", int(q)) if allint else ("flt", q)
        return ("text", min(strs, key=lambda s: s.encode()) if name == "min" else max(strs, key=lambda s: s.encode()))
    if name in ("minlen", "maxlen"):
        if not nonvoid:
            return ("void",)
        ls = [len(v.encode("utf-8").decode("utf-8")) for v in nonvoid]
        return ("int", min(ls) if name == "minlen" else max(ls))
    if name == "mad":
        if n == 0:
            return ("void",)
        m = sum(qs) / n
        return ("flt", sum(abs(x - m) for x in qs) / n)
    p = acc_p(name)
    if p is not None:
        if not nonvoid:
            return ("void",)
        sv = sort_vals(nonvoid)
        N = len(sv)
        if not interp:
            idx = int(p * N / 100)           # floor for p >= 0
            idx = min(max(idx, 0), N - 1)
            return ("val", sv[idx])
        f = max(Fraction(0), p / 100 * (N - 1))      # clamped below at 0 ...
        i = int(f)
        if i >= N - 1:                                # ... and above at the last element
            return ("val", sv[N - 1])
        a, b = numq(sv[i]), numq(sv[i + 1])
        if a is None or b is None:
            return ("any",)
        return ("flt", a + (f - i) * (b - a))
    raise KeyError(name)


def matches(exp, t):
    k = exp[0]
    o = obs_q(t)
    if k == "int":
        return INTRE.match(t) is not None and int(t) == exp[1]
    if k == "flt":
        return close(exp[1], o)
    if k == "sqrt":
        return o is not None and o >= 0 and sq_close(1, exp[1], o)
    if k == "pow15":
        return o is not None and o * exp[1] >= 0 and sq_close(exp[2] ** 3, exp[1] ** 2, o)
    if k == "text":
        return t == exp[1]
    if k == "void":
        return t == ""
    if k == "nan":
        return o is None and t != ""
    if k == "val":                       # an order statistic: the numeric value (or the text, for strings) of that element
        q = numq(exp[1])
        return (o is not None and o == q) if q is not None else t == exp[1]
    if k == "any":
        return True
    raise KeyError(k)


def oracle(s, recs, rows):
    """None when mlr's output rows equal the first-principles recomputation, else a description of the first difference"""
    k = s["verb"]
    exp = []                                    # list of records: list of (key, expectation)
    if k == "pctl-grid":
        exp = [[("p", expect_acc("p%s" % p, s["xs"], s["interp"])) for p in s["ps"]]]
    elif k == "count":
        if s["gs"] is None:
            exp = [[(s["out"], ("int", len(recs)))]]
        else:
            g = groups_of(recs, s["gs"])
            exp = [[(s["out"], ("int", len(g)))]] if s["n"] else [[(f, ("text", v)) for f, v in zip(s["gs"], key)] + [(s["out"], ("int", len(m)))] for key, m in g]
    elif k == "uniq":
        g = groups_of(recs, s["gs"])
        if s["n"]:
            exp = [[("count", ("int", len(g)))]]
        else:
            exp = [[(f, ("text", v)) for f, v in zip(s["gs"], key)] + ([(s["out"], ("int", len(m)))] if s["c"] else []) for key, m in g]
    elif k == "count-distinct-u":
        for f in s["gs"]:
            vals = [dict(r)[f] for r in recs if f in dict(r)]
            seen = []
            for v in vals:
                if v not in seen:
                    seen.append(v)
            exp += [[("field", ("text", f)), ("value", ("text", v)), ("count", ("int", vals.count(v)))] for v in seen]
        if not recs:
            exp = []
    elif k == "count-similar":
        for key, m in groups_of(recs, s["gs"]):
            for r in m:
                e = [(kk, ("text", vv)) for kk, vv in r if kk != s["out"]]
                pos = [i for i, (kk, vv) in enumerate(r) if kk == s["out"]]
                if pos:
                    e = [(kk, ("text", vv)) for kk, vv in r]
                    e[pos[0]] = (s["out"], ("int", len(m)))
                else:
                    e.append((s["out"], ("int", len(m))))
                exp.append(e)
    elif k == "fill-down":
        last = {}
        for r in recs:
            e = list(r)
            names = [kk for kk, _ in r] if s["all"] else s["fs"]
            for f in names:
                d = dict(e)
                present = (f in d) if s["only_if_absent"] else (f in d and d[f] != "")
                if present:
                    last[f] = d[f]
                elif f in last:
                    if f in d:
                        e = [(kk, last[f] if kk == f else vv) for kk, vv in e]
                    else:
                        e.append((f, last[f]))
            exp.append([(kk, ("text", vv)) for kk, vv in e])
    elif k in ("most-frequent", "least-frequent"):
        g = groups_of(recs, s["gs"])
        counts = sorted((len(m) for _, m in g), reverse=(k == "most-frequent"))[:s["maxn"]]
        size = {key: len(m) for key, m in g}
        if len(rows) != len(counts):
            return {"what": "record count", "expected": len(counts), "observed": len(rows)}
        seen = set()
        for i, (r, c) in enumerate(zip(rows, counts)):
            d = dict(r)
            key = tuple(d.get(f) for f in s["gs"])
            want_names = s["gs"] + ([] if s["b"] else [s["out"]])
            if [kk for kk, _ in r] != want_names and not (s["out"] in s["gs"]):
                return {"what": "field names", "record": i, "expected": want_names, "observed": [kk for kk, _ in r]}
            if key not in size or key in seen or size[key] != c or (not s["b"] and s["out"] not in s["gs"] and d[s["out"]] != str(c)):
                return {"what": "i-th most/least frequent group", "record": i, "expected_count": c, "observed": r, "true_count_of_that_group": size.get(key)}
            seen.add(key)
        return None
    elif k == "fraction":
        mult = 100 if s["p"] else 1
        suffix = ("_cumulative" if s["c"] else "") + ("_percent" if s["p"] else "_fraction")
        sums, cum = {}, {}
        for r in recs:
            d = dict(r)
            if all(g in d for g in s["gs"]):
                key = gkey(d, s["gs"])
                for f in s["fs"]:
                    if f in d:
                        sums[(key, f)] = sums.get((key, f), 0) + numq(d[f])
        for r in recs:
            d = dict(r)
            e = [(kk, ("text", vv)) for kk, vv in r]
            if all(g in d for g in s["gs"]):
                key = gkey(d, s["gs"])
                for f in s["fs"]:
                    if f in d:
                        num = numq(d[f]) + (cum.get((key, f), 0) if s["c"] else 0)
                        val = ("flt", Fraction(0)) if num == 0 else ("flt", num / sums[(key, f)] * mult)
                        name = f + suffix
                        idx = [i for i, (kk, _) in enumerate(e) if kk == name]
                        if idx:
                            e[idx[0]] = (name, val)
                        else:
                            e.append((name, val))
                        cum[(key, f)] = cum.get((key, f), 0) + numq(d[f])
            exp.append(e)
    elif k == "top":
        contributing = [r for r in recs if all(f in dict(r) for f in s["fs"])]
        for key, m in groups_of(contributing, s["gs"]):
            for i in range(s["n"]):
                e = [(f, ("text", v)) for f, v in zip(s["gs"], key)] + [(s["out"], ("int", i + 1))]
                for f in s["fs"]:
                    vals = sort_vals([dict(r)[f] for r in m])
                    vals = vals if s["min"] else vals[::-1]
                    e.append((f + "_top", ("val", vals[i]) if i < len(vals) else ("void",)))
                exp.append(e)
    elif k == "step":
        steppers = [(a,) + stepper_parts(a) for a in s["steppers"]]
        lead = max([n for _, b, n in steppers if b == "shift_lead"] + [0])
        members, where = {}, []
        for r in recs:
            d = dict(r)
            if all(g in d for g in s["gs"]):
                key = gkey(d, s["gs"])
                members.setdefault(key, []).append(r)
                where.append((key, len(members[key]) - 1))
            else:
                where.append(None)

        def arith(op, a, b):
            qa, qb = numq(a), numq(b)
            ints = classify(a)[0] == "int" and classify(b)[0] == "int"
            if op == "-":
                q = qa - qb
                return ("int", int(q)) if ints and I64[0] <= q <= I64[1] else ("flt", q)
            if qb == 0:
                return ("nan",)
            q = qa / qb
            return ("int", int(q)) if ints and q.denominator == 1 else ("flt", q)

        exps = []
        for idx, r in enumerate(recs):
            e = [(kk, ("text", vv)) for kk, vv in r]
            if where[idx] is None:
                exps.append((idx, idx, e))
                continue
            key, j = where[idx]
            grp = members[key]
            for f in s["fs"]:
                d = dict(r)
                if f not in d:
                    continue
                v = d[f]
                ev = [dict(x).get(f) for x in grp]
                nz = [x for x in ev[:j + 1] if x not in (None, "")]
                for name, base, n in steppers:
                    val = None
                    if base in ("counter", "rsum", "rprod"):
                        if v == "":
                            val = ("text", "")
                        elif base == "counter":
                            val = ("int", len(nz))
                        else:
                            qs = [numq(x) for x in nz]
                            tot = Fraction(0) if base == "rsum" else Fraction(1)
                            for q in qs:
                                tot = tot + q if base == "rsum" else tot * q
                            allint = all(classify(x)[0] == "int" for x in nz)
                            val = ("int", int(tot)) if allint and abs(tot) < 2 ** 62 else ("flt", tot)
                    elif base == "from-first":
                        i0 = next(i for i, x in enumerate(ev) if x is not None)
                        val = ("int", 0) if i0 == j else arith("-", v, ev[i0])
                    elif base in ("delta", "ratio"):
                        if v == "":
                            val = ("text", "")
                        else:
                            prev = ev[j - n] if j - n >= 0 else None
                            if prev in (None, ""):
                                val = ("int", 0 if base == "delta" else 1)
                            else:
                                val = arith("-" if base == "delta" else "/", v, prev)
                    elif base == "shift_lag":
                        prev = ev[j - n] if j - n >= 0 else None
                        val = ("text", prev if prev is not None else "")
                    elif base == "shift_lead":
                        if j + n < len(grp):
                            nx = ev[j + n]
                            val = ("text", nx) if nx is not None else None
                        else:
                            val = ("text", "")
                    elif base == "ewma":
                        xs = [numq(x) for x in ev[:j + 1] if x is not None]
                        for a, sfx in zip(s["alphas"], s.get("suffixes") or s["alphas"]):
                            al = Fraction(a)
                            cur = xs[0]
                            for x in xs[1:]:
                                cur = al * x + (1 - al) * cur
                            e.append((f + "_ewma_" + sfx, ("val", v) if len(xs) == 1 else ("flt", cur)))
                        continue
                    if val is not None:
                        e.append((f + "_" + name.replace("-", "_"), val))
            # emitted when the group's record `lead` places later arrives, else at end of stream in arrival order
            later = [i for i, w in enumerate(where) if w is not None and w[0] == key and w[1] == j + lead]
            exps.append((later[0] if later else len(recs), idx, e))
        exp = [e for _, _, e in sorted(exps, key=lambda t: (t[0], t[1]))]
    elif k == "merge-fields":
        for r in recs:
            e = [(kk, ("text", vv)) for kk, vv in r]
            groups, consumed = {}, []
            if s["mode"] == "f":
                groups[s["o"]] = []
                for f in s["names"]:
                    if f in dict(r):
                        consumed.append(f)
                        groups[s["o"]].append(dict(r)[f])
            else:
                if s["mode"] == "r":
                    groups[s["o"]] = []
                for kk, vv in r:
                    hit = next((sub for sub in s["names"] if sub in kk), None)
                    if hit is None:
                        continue
                    consumed.append(kk)
                    groups.setdefault(s["o"] if s["mode"] == "r" else kk.replace(hit, "", 1), []).append(vv)
            if not s["k"]:
                e = [(kk, vv) for kk, vv in e if kk not in consumed]
            for base, vals in groups.items():
                for a in s["accs"]:
                    name, val = base + "_" + a, expect_acc(a, [v for v in vals if v != ""], s["interp"])
                    pos = [i for i, (kk, _) in enumerate(e) if kk == name]
                    if pos:
                        e[pos[0]] = (name, val)
                    else:
                        e.append((name, val))
            exp.append(e)
    elif k == "histogram":
        lo, hi, nb = s["lo"], s["hi"], s["nbins"]
        counts = {f: [0] * nb for f in s["fs"]}
        for r in recs:
            d = dict(r)
            for f in s["fs"]:
                if f in d:
                    v = numq(d[f])
                    if lo <= v < hi:
                        counts[f][int((v - lo) * nb / (hi - lo))] += 1
                    elif v == hi:
                        counts[f][nb - 1] += 1
        for i in range(nb):
            exp.append([(s["o"] + "bin_lo", ("flt", lo + Fraction(i) * (hi - lo) / nb)), (s["o"] + "bin_hi", ("flt", lo + Fraction(i + 1) * (hi - lo) / nb))]
                       + [(s["o"] + f + "_count", ("int", counts[f][i])) for f in s["fs"]])
    elif k == "stats1":
        def stats_fields(members):
            out = []
            # the code keeps value fields in the order they first appear WHILE WALKING -f for each record
            forder = []
            for r in members:
                d = dict(r)
                for f in s["fs"]:
                    if f in d and f not in forder:
                        forder.append(f)
            for f in forder:
                vals = [dict(r)[f] for r in members if f in dict(r)]
                for a in dict.fromkeys(s["accs"]):
                    out.append((f + "_" + a, expect_acc(a, vals, s["interp"])))
            return out
        if s.get("w"):
            hist = {}
            for r in recs:
                d = dict(r)
                if any(g not in d for g in s["gs"]):
                    continue
                key = gkey(d, s["gs"])
                hist.setdefault(key, []).append(r)
                e = [(kk, ("text", vv)) for kk, vv in r]
                if JOINED_KEYS[0]:          # "explained by the joined key alone?": the code writes the group's FIRST member's group-by texts into the record
                    first = dict(hist[key][0])
                    e = [(kk, ("text", first[kk]) if kk in s["gs"] else ev) for kk, ev in e]
                # field order: fields ever seen in this group (not only in the window) keep their slot
                allf = stats_fields(hist[key])
                win = dict(stats_fields(hist[key][-s["w"]:]))
                for name, _ in allf:
                    if name in win:
                        val = win[name]
                    else:
                        fld = next(f for f in s["fs"] if name.startswith(f + "_"))
                        val = expect_acc(name[len(fld) + 1:], [], s["interp"])
                    idx = [i for i, (kk, _) in enumerate(e) if kk == name]
                    if idx:
                        e[idx[0]] = (name, val)
                    else:
                        e.append((name, val))
                exp.append(e)
        else:
            for key, m in groups_of(recs, s["gs"]):
                exp.append([(f, ("text", v)) for f, v in zip(s["gs"], key)] + stats_fields(m))
    elif k in EXT_VERBS:                   # ---- extension block (Verbs3.v)
        how, res = oracle_ext(s, recs, rows)
        if how == "result":
            return res
        exp = res
    else:
        raise KeyError(k)
    exp = [e for e in exp if e]                 # field-less records are not printed by the writers
    rows = [r for r in rows if r]
    if len(exp) != len(rows):
        return {"what": "record count", "expected": len(exp), "observed": len(rows)}
    for i, (e, r) in enumerate(zip(exp, rows)):
        if [kk for kk, _ in e] != [kk for kk, _ in r]:
            return {"what": "field names", "record": i, "expected": [kk for kk, _ in e], "observed": [kk for kk, _ in r]}
        for (kk, ev), (_, t) in zip(e, r):
            if not matches(ev, t):
                return {"what": "value", "record": i, "field": kk, "expected": [str(x) for x in ev], "observed": t}
    return None


def counts_add_up(s, recs, rows):
    """metamorphic form: counts over all groups add up to the number of contributing records"""
    if s["verb"] == "count" and s["gs"] is not None and not s["n"]:
        contributing = sum(1 for r in recs if all(g in dict(r) for g in s["gs"]))
        return sum(int(dict(r)[s["out"]]) for r in rows) == contributing
    if s["verb"] == "uniq" and s["c"] and not s["n"]:
        contributing = sum(1 for r in recs if all(g in dict(r) for g in s["gs"]))
        return sum(int(dict(r)[s["out"]]) for r in rows) == contributing
    if s["verb"] == "count-similar":
        return len(rows) == sum(1 for r in recs if all(g in dict(r) for g in s["gs"]))
    return True


# ------------------------------------------------------------------ generator
GKEYS = ["a", "b"]
VKEYS = ["x", "y", "z"]
WORDS = ["pan", "wye", "zee", "sky", "", "pan"]


def gen_value(rng, profile):
    r = rng.random()
    if profile == "small":          # exact in binary64: ints and dyadic decimals of small magnitude
        if r < 0.45:
            return str(rng.randint(-20, 40))
        if r < 0.85:
            return "%s%d.%s" % (rng.choice(["", "", "-"]), rng.randint(0, 40), rng.choice(["5", "25", "75", "125", "0", "50", "375"]))
        if r < 0.95:
            return ""
        return rng.choice(["pan", "wye"])
    if profile == "ints":
        if r < 0.6:
            return str(rng.randint(-9, 9))
        if r < 0.8:
            return str(rng.choice([2 ** 53 + 1, 2 ** 60 + 7, -(2 ** 60) - 3, 2 ** 61 - 1, 4611686018427387905, 10 ** 15 + 1]) + rng.randint(0, 2))
        if r < 0.92:
            return ""
        return str(rng.randint(-1000, 1000))
    if profile == "stepnums":
        if r < 0.45:
            return str(rng.randint(-6, 12))
        if r < 0.8:
            return "%s%d.%s" % (rng.choice(["", "-"]), rng.randint(0, 12), rng.choice(["5", "25", "75", "125"]))
        if r < 0.9:
            return ""
        return "0"
    if profile == "pos":
        return str(rng.randint(1, 40)) if r < 0.5 else "%d.%s" % (rng.randint(0, 40), rng.choice(["5", "25", "75", "125", "50"]))
    if profile == "nums":
        if r < 0.5:
            return str(rng.randint(-20, 40))
        if r < 0.8:
            return "%s%d.%s" % (rng.choice(["", "-"]), rng.randint(0, 40), rng.choice(["5", "25", "75", "125"]))
        return str(rng.choice([2 ** 53 + 1, 2 ** 60 + 7, -(2 ** 60) - 3]) + rng.randint(0, 2))
    if profile == "midints":        # large next to their spread, sums of squares still exact in int64: the exact-variance path (fix: var of ints)
        base = rng.choice([100000000, 123456789, -150000000, 99999999])
        return "" if r < 0.06 else str(base + rng.randint(0, 12))
    if profile == "wideints":       # wide spread: n (n-1) var exceeds 2^63 already for small groups while the sums of squares fit int64
        return "" if r < 0.06 else str(rng.randint(-1200000000, 1200000000))
    if profile == "text":
        if r < 0.35:
            return rng.choice(WORDS)
        if r < 0.6:
            return str(rng.randint(0, 5))
        if r < 0.75:
            return rng.choice(["1.0", "1.00", "1", "2.50", "2.5"])
        if r < 0.85:
            return rng.choice(["x,y", "y", "x", "p=q", "s p", "été", "zz"])
        return ""
    raise KeyError(profile)


def gen_records(rng, profile, nrec, gvals):
    recs = []
    for _ in range(nrec):
        r = []
        for g in GKEYS:
            if rng.random() < 0.9:
                r.append((g, rng.choice(gvals)))
        for v in VKEYS:
            if rng.random() < 0.85:
                r.append((v, gen_value(rng, profile)))
        if rng.random() < 0.3:
            rng.shuffle(r)
        if not r:
            r = [("k", "1")]
        recs.append(r)
    return recs


MFKEYS = ["a_in_x", "a_out_x", "b_in_y", "b_out_y", "x", "y", "z"]
MOMENT = ["var", "stddev", "meaneb", "skewness", "kurtosis", "mad"]
PLAIN = ["count", "sum", "min", "max", "mode", "antimode", "distinct_count", "null_count", "minlen", "maxlen", "mean"]


def gen_case(rng, tier):
    kind = rng.choice(["stats1", "stats1", "stats1", "stats1", "stats1p", "stats1p", "stats1w", "count", "uniq", "count-distinct-u", "count-similar",
                       "fill-down", "frequent", "fraction", "top", "step", "step", "step", "merge-fields", "merge-fields", "histogram"])
    nrec = rng.choice([0, 1, 2, 3, 5, 8, 12, 20] if tier == "quick" else [0, 1, 2, 3, 5, 8, 12, 20, 40])
    gvals = rng.choice([["pan", "wye"], ["pan", "wye", "zee", ""], ["1", "1.0", "01", "pan"], ["p"], ["pan", "wye", "zee", "sky", "elk", "fox"],
                        ["x,y", "x", "y", "y,z", "z"]])
    ng = rng.choice([0, 1, 1, 2])
    gs = rng.sample(GKEYS, ng)
    if rng.random() < EXT_SHARE:           # ---- extension block (Verbs3.v): shares the case budget
        return gen_case_ext(rng, tier, nrec, gvals, gs)
    if kind.startswith("stats1"):
        profile = rng.choice(["small", "small", "small", "ints", "text", "text", "midints", "wideints"])
        BIGVAR = ["var", "stddev", "meaneb", "mean", "sum", "count", "min", "max", "var", "stddev"]
        pool = {"small": PLAIN + MOMENT, "ints": PLAIN, "midints": BIGVAR, "wideints": BIGVAR,
                "text": ["count", "mode", "antimode", "distinct_count", "null_count", "minlen", "maxlen", "min", "max", "sum"]}[profile]
        accs = rng.sample(sorted(set(pool)), rng.randint(1, min(5, len(set(pool)))))
        if profile in ("midints", "wideints") and not set(accs) & {"var", "stddev", "meaneb"}:
            accs.append(rng.choice(["var", "stddev", "meaneb"]))
        interp = False
        if kind == "stats1p":
            profile = rng.choice(["small", "ints"])
            interp = rng.random() < 0.4
            ps = ["median"] + [fmt_p(rng.randint(0, 200)) for _ in range(rng.randint(1, 4))]
            ps = list(dict.fromkeys(ps))
            seen, accs2 = set(), []
            for a in ps + rng.sample(["count", "min", "max"], 1):
                if acc_p(a) not in seen or acc_p(a) is None:
                    accs2.append(a)
                seen.add(acc_p(a))
            accs = accs2
            rng.shuffle(accs)
        fs = rng.sample(VKEYS, rng.randint(1, 3))
        if rng.random() < 0.1:                      # names given twice: kept once (fix: df62dcee7)
            accs = accs + [rng.choice(accs)]
        if rng.random() < 0.1:
            fs = fs + [rng.choice(fs)]
        s = {"verb": "stats1", "accs": accs, "fs": fs, "gs": gs, "interp": interp, "profile": profile}
        if kind == "stats1w":
            s["w"] = rng.choice([1, 2, 3, 5])
    elif kind == "step":
        simple = ["counter", "rsum", "rprod", "delta", "ratio", "shift", "shift_lag", "delta_2", "ratio_2", "shift_lag_2", "shift_3", "from-first"]
        st = rng.sample(simple, rng.randint(1, 3))
        s = {"verb": "step", "fs": rng.sample(VKEYS, rng.randint(1, 2)), "gs": gs, "profile": "stepnums"}
        r = rng.random()
        if r < 0.3:
            st = rng.sample(st + ["shift_lead", "shift_lead_2", "shift_lead_3"], rng.randint(1, 3))
            if not any(x.startswith("shift_lead") for x in st):
                st.append(rng.choice(["shift_lead", "shift_lead_2"]))
        elif r < 0.45:
            st = list(dict.fromkeys(st[:1] + ["ewma"]))
            s["alphas"] = rng.choice([["0.5"], ["0.1", "0.9"], ["0.25", "0.75", "1"]])
            if rng.random() < 0.4:
                s["suffixes"] = ["s%d" % i for i in range(len(s["alphas"]))]
        s["steppers"] = st
        if "ewma" in st:
            s["profile"] = "pos"           # float recurrences: values exactly representable with small magnitude (the tie domain of binary64)
        elif "from-first" in st:
            s["profile"] = "nums"
    elif kind == "merge-fields":
        mode = rng.choice(["f", "r", "c"])
        prof = rng.choice(["small", "small", "small", "ints", "text", "text", "midints", "wideints"])
        pool = {"small": PLAIN + MOMENT, "ints": PLAIN, "midints": ["var", "stddev", "meaneb", "mean", "sum", "count"], "wideints": ["var", "stddev", "meaneb", "mean", "sum", "count"],
                "text": ["count", "mode", "antimode", "distinct_count", "null_count", "minlen", "maxlen", "min", "max", "sum"]}[prof]
        accs = rng.sample(pool, rng.randint(1, 4))
        if prof in ("midints", "wideints") and not set(accs) & {"var", "stddev", "meaneb"}:
            accs.append(rng.choice(["var", "stddev", "meaneb"]))
        if rng.random() < 0.25 and prof != "text":
            accs = list(dict.fromkeys(accs + [rng.choice(["median", "p25", "p90"])]))
        s = {"verb": "merge-fields", "mode": mode, "accs": accs, "k": rng.random() < 0.4, "interp": False, "o": rng.choice(["out", "ab", "x"]),
             "names": {"f": rng.sample(MFKEYS, rng.randint(1, 4)), "r": rng.sample(["in_", "out_", "a_", "_x", "y"], rng.randint(1, 2)),
                       "c": rng.sample(["in_", "out_", "a_", "b_"], rng.randint(1, 2))}[mode], "profile": "mf:" + prof}
    elif kind == "histogram":
        lo, hi, nb = rng.choice([(0, 10, 5), (0, 1, 4), (-8, 8, 16), (0, 40, 20), (-20, 20, 10), (0, 32, 4), (1, 3, 8), (-40, 41, 3)])
        s = {"verb": "histogram", "fs": rng.sample(VKEYS, rng.randint(1, 3)), "lo": Fraction(lo), "hi": Fraction(hi), "nbins": nb,
             "o": rng.choice(["", "", "h_"]), "profile": "nums"}
    elif kind in ("fill-down", "frequent", "fraction", "top"):
        out = rng.choice(["count", "count", "n"])
        if kind == "fill-down":
            profile = "text"
            s = {"verb": "fill-down", "all": rng.random() < 0.25, "fs": rng.sample(GKEYS + VKEYS, rng.randint(1, 3)), "only_if_absent": rng.random() < 0.4}
        elif kind == "frequent":
            profile = "text"
            s = {"verb": rng.choice(["most-frequent", "least-frequent"]), "gs": gs or ["b"], "maxn": rng.choice([10, 10, 1, 2, 3]), "b": rng.random() < 0.3, "out": out}
        elif kind == "fraction":
            profile = "pos"
            s = {"verb": "fraction", "fs": rng.sample(VKEYS, rng.randint(1, 2)), "gs": gs, "p": rng.random() < 0.4, "c": rng.random() < 0.4}
        else:
            profile = "nums"
            s = {"verb": "top", "fs": rng.sample(VKEYS, rng.randint(1, 2)), "gs": gs, "n": rng.choice([1, 1, 2, 3, 5]), "min": rng.random() < 0.4,
                 "out": rng.choice(["top_idx", "top_idx", "i"])}
        s["profile"] = profile
    else:
        profile = "text"
        out = rng.choice(["count", "count", "n", "x"])
        if kind == "count":
            s = {"verb": "count", "gs": gs if (ng or rng.random() < 0.3) and ng else None, "n": rng.random() < 0.25, "out": out}
            if s["gs"] is None:
                s["n"] = False
        elif kind == "uniq":
            gs = gs or ["a"]
            mode = rng.choice(["c", "n", "plain", "cd", "cdn"])
            s = {"verb": "uniq", "gs": gs, "c": mode in ("c", "cd"), "n": mode in ("n", "cdn"), "out": out if mode in ("c", "cd") else "count",
                 "as_count_distinct": mode in ("cd", "cdn")}
        elif kind == "count-distinct-u":
            s = {"verb": "count-distinct-u", "gs": rng.sample(GKEYS + VKEYS, rng.randint(1, 3))}
        else:
            s = {"verb": "count-similar", "gs": gs or ["a"], "out": out}
        s["profile"] = profile
    profile = s["profile"]
    if profile.startswith("mf:"):
        recs = []
        for _ in range(nrec):
            r = [(kk, gen_value(rng, profile[3:])) for kk in MFKEYS + ["a", "k"] if rng.random() < 0.7] or [("k", "1")]
            if rng.random() < 0.3:
                rng.shuffle(r)
            recs.append(r)
        return s, recs
    recs = gen_records(rng, profile, nrec, gvals)
    if s["verb"] == "step" and any(x.startswith("shift_lead") for x in s["steppers"]):
        # look-ahead steppers: value fields present in every record (the newest-vs-centre dispatch of the code is then moot)
        recs = [r + [(f, gen_value(rng, profile)) for f in s["fs"] if f not in dict(r)] for r in recs]
    if s["verb"] in ("most-frequent", "least-frequent") and len(groups_of(recs, s["gs"])) > 12:
        # sort.Slice is a stable insertion sort only up to 12 elements: beyond that the order among equal counts is not modelled;
        # the case keeps its groups and is compared with the first-principles oracle only (---- extension block: no_model)
        s["no_model"] = True
    return s, recs


def fmt_p(half):
    return "p%d" % (half // 2) if half % 2 == 0 else "p%d.5" % (half // 2)


def in_group_domain(s, recs):
    """property domain used for the correspondence with the model: group-by texts free of the joiner"""
    return True


# ================================================================== extension: verbs of Verbs3.v (begin)
# uniq -a [-c|-n], fill-empty, top with the exact keeper (top -a; value texts), step -a slwin_B_F.
# Each: generator kind, mlr_args, coq_spec (constructors added to Harness.vspec), first-principles oracle.
EXT_VERBS = {"uniq-a", "fill-empty", "top2", "step-slwin", "stats1g", "stats2"}
EXT_SHARE = 0.3                      # share of the generated cases that go to these verbs
SLWINS = [(0, 0), (1, 0), (2, 0), (3, 0), (0, 1), (1, 1), (2, 1), (0, 2), (3, 2), (1, 3)]


def coq_spec_ext(s):
    k = s["verb"]
    if k == "uniq-a":
        return f"(SUniqA {({'plain': 'UAPlain', 'c': 'UACounts', 'n': 'UANum'}[s['mode']])} {coq_bytes(s['out'])})"
    if k == "fill-empty":
        return f"(SFillEmpty {coq_bytes(s['v'])})"
    if k == "top2":
        return f"(STop2 {coq_bool(s['a'])} {s['n']}%nat {coq_bool(not s['min'])} {coq_bytes(s['out'])} {coq_names(s['fs'])} {coq_names(s['gs'])})"
    if k == "step-slwin":
        return f"(SStepSlwin {coq_list(['(%d%%nat, %d%%nat)' % (b, f) for b, f in s['wins']])} {coq_names(s['fs'])} {coq_names(s['gs'])})"
    if k == "stats1g":
        fk, gk = s["fsel"]["kind"], s["gsel"]["kind"]
        fsl = f"(FNames {coq_names(s['fsel']['names'])})" if fk == "f" else f"(FRegex {coq_bool(fk == 'fx')} {coq_pats(s['fsel']['names'])})"
        gsl = f"(GNames {coq_names(s['gsel']['names'])})" if gk == "g" else f"(GRegex {coq_bool(gk == 'gx')} {coq_pats(s['gsel']['names'])})"
        mode = {"end": "M1End", "s": "M1Iter"}.get(s["mode"]) or f"(M1Win {s['w']}%nat)"
        return f"(SStats1G {coq_bool(s['interp'])} {coq_list([coq_acc(a) for a in s['accs']])} {fsl} {gsl} {mode})"
    if k == "stats2":
        accs = coq_list([{"linreg-ols": "S2Ols", "r2": "S2R2", "cov": "S2Cov", "corr": "S2Corr"}[a] for a in s["accs"]])
        return f"(SStats2 {coq_bool(s['s'])} {accs} {coq_names(s['fs'])} {coq_names(s['gs'])})"
    raise KeyError(k)


def pat_parts(p):
    """'^lit$' -> (anchored at head, anchored at tail, literal): the regex sub-language of Verbs4.pat"""
    head, tail = p.startswith("^"), p.endswith("$")
    return head, tail, p[1 if head else 0:len(p) - (1 if tail else 0)]


def coq_pats(ps):
    return coq_list(["(mkpat %s %s %s)" % (coq_bool(h), coq_bool(t), coq_bytes(l)) for h, t, l in map(pat_parts, ps)])


def mlr_args_ext(s):
    k = s["verb"]
    if k == "uniq-a":
        return ["uniq", "-a"] + {"plain": [], "c": ["-c"], "n": ["-n"]}[s["mode"]] + (["-o", s["out"]] if s["out"] != "count" else [])
    if k == "fill-empty":
        return ["fill-empty"] + (["-v", s["v"]] if s["v"] != "N/A" or s.get("explicit_v") else []) + (["-S"] if s["S"] else [])
    if k == "top2":
        return (["top", "-f", ",".join(s["fs"])] + (["-g", ",".join(s["gs"])] if s["gs"] else []) + (["-n", str(s["n"])] if s["n"] != 1 else [])
                + (["--min"] if s["min"] else []) + (["-a"] if s["a"] else []) + (["-F"] if s.get("F") else []) + (["-o", s["out"]] if s["out"] != "top_idx" else []))
    if k == "step-slwin":
        return ["step", "-a", ",".join("slwin_%d_%d" % (b, f) for b, f in s["wins"]), "-f", ",".join(s["fs"])] + (["-g", ",".join(s["gs"])] if s["gs"] else [])
    if k == "stats1g":
        a = ["stats1", "-a", ",".join(s["accs"]), {"f": "-f", "fr": "--fr", "fx": "--fx"}[s["fsel"]["kind"]], ",".join(s["fsel"]["names"])]
        if s["gsel"]["names"]:
            a += [{"g": "-g", "gr": "--gr", "gx": "--gx"}[s["gsel"]["kind"]], ",".join(s["gsel"]["names"])]
        return a + (["-i"] if s["interp"] else []) + (["-s"] if s["mode"] == "s" else []) + (["-w", str(s["w"])] if s["mode"] == "w" else [])
    if k == "stats2":
        return ["stats2", "-a", ",".join(s["accs"]), "-f", ",".join(s["fs"])] + (["-g", ",".join(s["gs"])] if s["gs"] else []) + (["-s"] if s["s"] else [])
    raise KeyError(k)


def oracle_ext(s, recs, rows):
    """('exp', expected records as for oracle()) | ('result', None or a description of the first difference)"""
    k = s["verb"]
    if k == "uniq-a":
        # distinct WHOLE records: the ordered list of (name, text) pairs
        order, cnt = [], {}
        for r in recs:
            t = tuple(r)
            if t not in cnt:
                order.append(t)
                cnt[t] = 0
            cnt[t] += 1
        if s["mode"] == "n":
            return "exp", [[(s["out"], ("int", len(order)))]]
        if s["mode"] == "plain":
            return "exp", [[(kk, ("text", vv)) for kk, vv in t] for t in order]        # each distinct record once, at first sight
        exp = []
        for t in order:
            e = [(kk, ("text", vv)) for kk, vv in t]
            if s["out"] in dict(t):                                                    # the count takes the place of a field of that name
                e = [(kk, ("int", cnt[t]) if kk == s["out"] else ev) for kk, ev in e]
            else:
                e = [(s["out"], ("int", cnt[t]))] + e
            exp.append(e)
        if sum(cnt.values()) != len(recs):
            return "result", {"what": "internal: counts do not add up"}
        return "exp", exp
    if k == "fill-empty":
        return "exp", [[(kk, ("text", s["v"] if vv == "" else vv)) for kk, vv in r] for r in recs]
    if k == "stats1g":
        return "exp", oracle_stats1g(s, recs)
    if k == "stats2":
        return "exp", oracle_stats2(s, recs)
    if k == "step-slwin":
        lead = max(f for _, f in s["wins"])
        members, where = {}, []
        for r in recs:
            d = dict(r)
            if all(g in d for g in s["gs"]):
                key = gkey(d, s["gs"])
                members.setdefault(key, []).append(r)
                where.append((key, len(members[key]) - 1))
            else:
                where.append(None)
        exps = []
        for idx, r in enumerate(recs):
            e = [(kk, ("text", vv)) for kk, vv in r]
            if where[idx] is None:
                exps.append((idx, idx, e))
                continue
            key, j = where[idx]
            grp = members[key]
            for f in s["fs"]:
                if f not in dict(r):
                    continue
                for b, fw in s["wins"]:
                    # mean of the field's non-empty values over the group's records j-b .. j+fw
                    qs = [numq(dict(x)[f]) for x in grp[max(0, j - b):j + fw + 1] if dict(x).get(f, "") != ""]
                    name, val = "%s_%d_%d" % (f, b, fw), (("flt", sum(qs) / len(qs)) if qs else ("text", ""))
                    pos = [i for i, (kk, _) in enumerate(e) if kk == name]
                    if pos:
                        e[pos[0]] = (name, val)
                    else:
                        e.append((name, val))
            later = [i for i, w in enumerate(where) if w is not None and w[0] == key and w[1] == j + lead]
            exps.append((later[0] if later else len(recs), idx, e))
        return "exp", [e for _, _, e in sorted(exps, key=lambda t: (t[0], t[1]))]
    if k == "top2":
        contributing = [r for r in recs if all(f in dict(r) for f in s["fs"])]
        groups = groups_of(contributing, s["gs"])
        if not s["a"]:
            d = oracle(dict(s, verb="top"), recs, rows)           # ranks, names, values as numbers
            if d is not None:
                return "result", d
            rr = [r for r in rows if r]
            for gi, (key, m) in enumerate(groups):                # and every printed value is the text of a member's value
                for i in range(s["n"]):
                    for f in s["fs"]:
                        t = dict(rr[gi * s["n"] + i]).get(f + "_top")
                        if t != "" and t not in [dict(r)[f] for r in m]:
                            return "result", {"what": "top value is not the text of any member's value", "group": list(key), "rank": i + 1, "field": f, "observed": t}
            return "result", None
        # -a: per group (first-appearance order) the min(n, size) best members, best first; any choice among equal values
        f = s["fs"][0]
        pos = 0
        for key, m in groups:
            vals = sort_vals([dict(r)[f] for r in m])
            vals = (vals if s["min"] else vals[::-1])[:s["n"]]
            got = rows[pos:pos + len(vals)]
            pos += len(vals)
            if len(got) != len(vals):
                return "result", {"what": "record count", "expected_at_least": pos, "observed": len(rows)}
            pool = [tuple(r) for r in m]
            for i, (r, v) in enumerate(zip(got, vals)):
                if tuple(r) not in pool:
                    return "result", {"what": "top -a record is not a (not yet emitted) member of the group", "group": list(key), "rank": i + 1, "observed": r}
                pool.remove(tuple(r))
                if numq(dict(r)[f]) != numq(v) if numq(v) is not None else dict(r)[f] != v:
                    return "result", {"what": "top -a record does not carry the rank's value", "group": list(key), "rank": i + 1, "expected_value": v, "observed": r}
        if pos != len(rows):
            return "result", {"what": "record count", "expected": pos, "observed": len(rows)}
        return "result", None
    raise KeyError(k)


def oracle_stats1g(s, recs):
    """stats1 from first principles: field selection by name or by regex (re.search), groups keyed by the tuple of the
    group-by (name, text) pairs, each accumulator recomputed from the values of its field over the group's records
    (end of stream), over the group's records so far (-s), over the group's last w records (-w)"""
    accs = list(dict.fromkeys(s["accs"]))                     # a name given twice is one accumulator
    fk, fnames = s["fsel"]["kind"], s["fsel"]["names"]
    gk, gnames = s["gsel"]["kind"], s["gsel"]["names"]

    def selected(kind, names, key):
        hit = any(re.search(p, key) for p in names)
        return hit != (kind in ("fx", "gx"))

    def vfields(r):
        d = dict(r)
        return [f for f in dict.fromkeys(fnames) if f in d] if fk == "f" else [kk for kk, _ in r if selected(fk, fnames, kk)]

    def gpairs(r):
        d = dict(r)
        if gk == "g":
            return None if any(g not in d for g in gnames) else tuple((g, d[g]) for g in gnames)
        return tuple((kk, vv) for kk, vv in r if selected(gk, gnames, kk))

    def gident(pairs):
        if gk == "g":
            vals = tuple(v for _, v in pairs)
            return ",".join(vals) if JOINED_KEYS[0] else vals
        return pairs

    out_names = list(dict.fromkeys(gnames)) if gk == "g" else []
    order, groups = [], {}                                   # group -> {"shown": pairs, "hist": [record], "fields": [names in first-fed order]}
    exp = []
    for r in recs:
        pairs = gpairs(r)
        if pairs is None:
            continue
        if gk != "g":
            for kk, _ in pairs:
                if kk not in out_names:
                    out_names.append(kk)
        gid = gident(pairs)
        if gid not in groups:
            groups[gid] = {"shown": pairs, "hist": [], "fields": []}
            order.append(gid)
        g = groups[gid]
        g["hist"].append(r)
        for f in vfields(r):
            if f not in g["fields"]:
                g["fields"].append(f)
        if s["mode"] in ("s", "w"):
            e = [(kk, ("text", vv)) for kk, vv in r]
            shown = dict(g["shown"] if gk == "g" else pairs)
            members = g["hist"] if s["mode"] == "s" else g["hist"][-s["w"]:]
            add = [(n, ("text", shown[n])) for n in out_names if n in shown]
            for f in g["fields"]:
                vals = [dict(m)[f] for m in members if f in vfields(m)]
                add += [(f + "_" + a, expect_acc(a, vals, s["interp"])) for a in accs]
            for name, val in add:
                idx = [i for i, (kk, _) in enumerate(e) if kk == name]
                if idx:
                    e[idx[0]] = (name, val)
                else:
                    e.append((name, val))
            exp.append(e)
    if s["mode"] == "end":
        for gid in order:
            g = groups[gid]
            shown = dict(g["shown"])
            e = [(n, ("text", shown[n])) for n in out_names if n in shown]
            for f in g["fields"]:
                vals = [dict(m)[f] for m in g["hist"] if f in vfields(m)]
                e += [(f + "_" + a, expect_acc(a, vals, s["interp"])) for a in accs]
            exp.append(e)
    return exp


def expect_bivar(a, f1, f2, xys):
    """the fields accumulator `a` writes for the pair (f1, f2), from the textbook definitions over the (x, y) pairs:
    centred sums cxy = sum (x-mx)(y-my), cxx, cyy; cov = cxy/(n-1); OLS m = cxy/cxx, b = my - m mx; r2 = cxy^2/(cxx cyy);
    corr = cov / sqrt(var_x var_y)"""
    n = len(xys)
    pre = f1 + "_" + f2 + "_"
    if n >= 1:
        mx, my = sum(x for x, _ in xys) / n, sum(y for _, y in xys) / n
        cxy = sum((x - mx) * (y - my) for x, y in xys)
        cxx = sum((x - mx) ** 2 for x, _ in xys)
        cyy = sum((y - my) ** 2 for _, y in xys)
    few = n < 2
    if a == "linreg-ols":
        if few:
            return [(pre + "ols_m", ("void",)), (pre + "ols_b", ("void",)), (pre + "ols_n", ("int", n))]
        if cxx == 0:
            return [(pre + "ols_m", ("nan",)), (pre + "ols_b", ("nan",)), (pre + "ols_n", ("int", n))]
        m = cxy / cxx
        return [(pre + "ols_m", ("flt", m)), (pre + "ols_b", ("flt", my - m * mx)), (pre + "ols_n", ("int", n))]
    if a == "r2":
        return [(pre + "r2", ("void",) if few else ("nan",) if cxx * cyy == 0 else ("flt", cxy * cxy / (cxx * cyy)))]
    if a == "cov":
        return [(pre + "cov", ("void",) if few else ("flt", cxy / (n - 1)))]
    if a == "corr":
        if few:
            return [(pre + "corr", ("void",))]
        vv = cxx / (n - 1) * cyy / (n - 1)
        return [(pre + "corr", ("nan",) if vv == 0 else ("pow15", cxy / (n - 1) * vv, vv))]
    raise KeyError(a)


def oracle_stats2(s, recs):
    pairs = [(s["fs"][i], s["fs"][i + 1]) for i in range(0, len(s["fs"]), 2)]
    order, groups = [], {}
    exp = []
    for r in recs:
        d = dict(r)
        if any(g not in d for g in s["gs"]):
            if s["s"]:                               # -s: a record lacking a group-by field passes through unchanged
                exp.append([(kk, ("text", vv)) for kk, vv in r])
            continue
        key = gkey(d, s["gs"])
        if key not in groups:
            groups[key] = {"shown": None, "xys": {p: [] for p in pairs}}
            order.append(key)
        g = groups[key]
        g["shown"] = [d[x] for x in s["gs"]]
        e = [(kk, ("text", vv)) for kk, vv in r]
        for p in pairs:
            if p[0] in d and p[1] in d and d[p[0]] != "" and d[p[1]] != "":
                g["xys"][p].append((numq(d[p[0]]), numq(d[p[1]])))
                if s["s"]:
                    for a in s["accs"]:
                        for name, val in expect_bivar(a, p[0], p[1], g["xys"][p]):
                            idx = [i for i, (kk, _) in enumerate(e) if kk == name]
                            if idx:
                                e[idx[0]] = (name, val)
                            else:
                                e.append((name, val))
        if s["s"]:
            exp.append(e)
    if not s["s"]:
        for key in order:
            g = groups[key]
            e = [(f, ("text", v)) for f, v in zip(s["gs"], g["shown"])]
            for p in pairs:
                if g["xys"][p]:
                    for a in s["accs"]:
                        e += expect_bivar(a, p[0], p[1], g["xys"][p])
            exp.append(e)
    return exp


def gen_stats2(rng, tier, nrec, gvals, gs):
    fs = rng.choice([["x", "y"], ["y", "x"], ["x", "y", "y", "z"], ["x", "z", "x", "y"], ["z", "x"]])
    s = {"verb": "stats2", "accs": rng.sample(["linreg-ols", "r2", "cov", "corr"], rng.randint(1, 4)), "fs": fs, "gs": gs, "s": rng.random() < 0.35,
         "profile": "stepnums"}
    recs = gen_records(rng, "stepnums", nrec, gvals)
    if rng.random() < 0.15:             # degenerate groups: all x equal (no OLS fit, r2 and corr undefined)
        recs = [[(kk, "2.5" if kk == "x" and vv != "" else vv) for kk, vv in r] for r in recs]
    return s, recs


S1G_GK = ["a", "b", "ab", "g1"]
S1G_VK = ["x", "y", "z", "xy", "x_in", "y2"]


def gen_stats1g(rng, tier, nrec, gvals):
    """stats1 with every field-selection form on records with heterogeneous field names"""
    profile = rng.choice(["small", "small", "ints", "text"])
    pool = {"small": PLAIN + MOMENT, "ints": PLAIN, "text": ["count", "mode", "antimode", "distinct_count", "null_count", "minlen", "maxlen", "min", "max"]}[profile]
    accs = rng.sample(pool, rng.randint(1, min(4, len(pool))))
    interp = False
    if rng.random() < 0.25 and profile != "text":
        accs = list(dict.fromkeys(accs + rng.sample(["median", "p25", "p75", "p10", "p90"], rng.randint(1, 2))))
        interp = rng.random() < 0.4
    if rng.random() < 0.15:
        accs = accs + [rng.choice(accs)]                      # a name given twice: one accumulator, every value ingested once
    fk = rng.choice(["f", "fr", "fr", "fx"])
    if fk == "f":
        fnames = rng.sample(S1G_VK, rng.randint(1, 3))
        if rng.random() < 0.2:
            fnames = fnames + [rng.choice(fnames)]
    elif fk == "fr":
        fnames = rng.sample(["^x", "x", "y$", "^y$", "_in", "z", "2$", "^xy$", "q"], rng.randint(1, 2))
    else:
        fnames = rng.sample(["a", "b", "g", "^x$", "y"], rng.randint(2, 4))
        fnames = list(dict.fromkeys(fnames + ["a", "b", "g"])) if profile != "text" else fnames      # numeric profiles: keep the (text) group-by fields out
    gk = rng.choice(["g", "gr", "gr", "gx", "none"])
    if gk == "none":
        gk, gnames = "g", []
    elif gk == "g":
        gnames = rng.sample(S1G_GK, rng.randint(1, 2))
    elif gk == "gr":
        gnames = rng.sample(["^a$", "^a", "b$", "a", "b", "^g", "^ab$", "q", "1$"], rng.randint(1, 2))
    else:
        gnames = list(dict.fromkeys(rng.sample(["^a$", "b", "g"], rng.randint(0, 2)) + ["x", "y", "z"]))
    mode = rng.choice(["end", "end", "s", "s", "w"])
    s = {"verb": "stats1g", "accs": accs, "fsel": {"kind": fk, "names": fnames}, "gsel": {"kind": gk, "names": gnames}, "mode": mode,
         "interp": interp, "profile": "het:" + profile}
    if mode == "w":
        s["w"] = rng.choice([1, 2, 3, 5])
    recs = []
    for _ in range(nrec):
        r = [(g, rng.choice(gvals)) for g in S1G_GK if rng.random() < (0.7 if g == "a" else 0.45)]
        r += [(v, gen_value(rng, profile)) for v in S1G_VK if rng.random() < 0.55]
        if rng.random() < 0.5:
            rng.shuffle(r)
        recs.append(r or [("k", "1")])
    return s, recs


def gen_case_ext(rng, tier, nrec, gvals, gs):
    kind = rng.choice(["uniq-a", "uniq-a", "fill-empty", "top2", "top2", "top2", "step-slwin", "step-slwin", "step-slwin", "frequent-many",
                       "stats1g", "stats1g", "stats1g", "stats1g", "stats1g", "stats2", "stats2", "stats2"])
    if kind == "stats1g":
        return gen_stats1g(rng, tier, nrec, gvals)
    if kind == "stats2":
        return gen_stats2(rng, tier, nrec, gvals, gs)
    if kind == "frequent-many":
        # most/least-frequent over 13..30 groups (beyond the 12-element insertion sort of sort.Slice): first-principles oracle only
        ngroups = rng.randint(13, 30)
        recs = [[("b", "g%d" % rng.randint(0, ngroups - 1)), ("x", str(i))] for i in range(rng.choice([20, 40, 60]))]
        recs += [[("b", "g%d" % i)] for i in range(ngroups) if rng.random() < 0.8]
        rng.shuffle(recs)
        s = {"verb": rng.choice(["most-frequent", "least-frequent"]), "gs": ["b"], "maxn": rng.choice([10, 10, 1, 3, 15, 40]), "b": rng.random() < 0.3,
             "out": rng.choice(["count", "count", "n"]), "profile": "manygroups"}
        if len(groups_of(recs, s["gs"])) > 12:
            s["no_model"] = True
        return s, recs
    if kind == "uniq-a":
        # few distinct records, repeated; the same fields in another order is another record
        base = gen_records(rng, "text", rng.choice([1, 2, 3, 4]), gvals)
        base += [list(reversed(r)) for r in base[:1]]
        # separator-bearing values: a twin of a record whose first value swallows the next field as text (name, separators and all, for
        # the usual separators , = and the ones this harness reads with ; :): equal as a joined line, different as a record
        for r in list(base):
            if len(r) >= 2 and rng.random() < 0.6:
                ps, fs_ = rng.choice([("=", ","), ("=", ","), (":", ";"), ("=", ";"), (" ", ",")])
                (k1, v1), (k2, v2) = r[0], r[1]
                if ";" not in fs_ and ":" not in ps:               # the twin must itself be readable with --ifs ';' --ips ':'
                    base.append([(k1, v1 + fs_ + k2 + ps + v2)] + r[2:])
        recs = [list(rng.choice(base)) for _ in range(nrec)]
        mode = rng.choice(["plain", "c", "c", "n"])
        return {"verb": "uniq-a", "mode": mode, "out": rng.choice(["count", "count", "n", "a", "x"]) if mode != "plain" else "count", "profile": "text"}, recs
    if kind == "fill-empty":
        v = rng.choice(["N/A", "N/A", "X", "0", "-1", "0x10", "1.50", "", "été"])
        return {"verb": "fill-empty", "v": v, "S": rng.random() < 0.3, "explicit_v": rng.random() < 0.3, "profile": "text"}, gen_records(rng, "text", nrec, gvals)
    if kind == "top2":
        a = rng.random() < 0.6
        s = {"verb": "top2", "a": a, "fs": rng.sample(VKEYS, 1 if a else rng.randint(1, 2)), "gs": gs, "n": rng.choice([1, 1, 2, 3, 5]), "min": rng.random() < 0.4,
             "F": rng.random() < 0.15, "out": rng.choice(["top_idx", "top_idx", "i"]), "profile": "nums"}
        recs = gen_records(rng, "nums", nrec, gvals)
        if rng.random() < 0.6:         # many equal values, also equal numbers written differently (2 / 2.0)
            s["profile"] = "ties"
            recs = [[(kk, rng.choice(["1", "2", "2.0", "3", "1.5", "2.5", "-1", "2"]) if kk in VKEYS else vv) for kk, vv in r] for r in recs]
        return s, recs
    wins = rng.sample(SLWINS, rng.choice([1, 1, 2]))
    s = {"verb": "step-slwin", "wins": wins, "fs": rng.sample(VKEYS, rng.randint(1, 2)), "gs": gs, "profile": "stepnums"}
    recs = gen_records(rng, "stepnums", nrec, gvals)
    if any(f > 0 for _, f in wins):
        # look-ahead: value fields present in every record (the code decides present/absent on the newest record while the steppers act on the centre)
        recs = [r + [(f, gen_value(rng, "stepnums")) for f in s["fs"] if f not in dict(r)] for r in recs]
    return s, recs
# ================================================================== extension: verbs of Verbs3.v (end)


# ------------------------------------------------------------------ DSL statistics functions (one mlr process for all cases)
DSL_PROG = """
func r(str f, xs, p, il) {
  if (f == "count") {return count(xs)}
  elif (f == "sum") {return sum(xs)}
  elif (f == "mean") {return mean(xs)}
  elif (f == "var") {return variance(xs)}
  elif (f == "stddev") {return stddev(xs)}
  elif (f == "meaneb") {return meaneb(xs)}
  elif (f == "skewness") {return skewness(xs)}
  elif (f == "kurtosis") {return kurtosis(xs)}
  elif (f == "minlen") {return minlen(xs)}
  elif (f == "maxlen") {return maxlen(xs)}
  elif (f == "null_count") {return null_count(xs)}
  elif (f == "distinct_count") {return distinct_count(xs)}
  elif (f == "mode") {return mode(xs)}
  elif (f == "antimode") {return antimode(xs)}
  elif (f == "median") {return median(xs, {"interpolate_linearly": il})}
  elif (f == "percentile") {return percentile(xs, p, {"interpolate_linearly": il})}
  elif (f == "percentiles") {return percentiles(xs, [p], {"il": il, "oa": true})[1]}
  elif (f == "percentiles_map") {return percentiles(xs, [p], {"il": il})[string(p)]}
  elif (f == "sort_collection") {return sort_collection(xs)}
  else {return "nosuch"}
}
print json_stringify(r($f, $xs, $p, $il));
"""
DSL_ACC = ["count", "sum", "mean", "var", "stddev", "meaneb", "skewness", "kurtosis", "minlen", "maxlen", "null_count", "distinct_count", "mode", "antimode"]


def dsl_cases(ctx, n):
    rng = ctx.rng
    cases = []
    for _ in range(n):
        xs = [gen_value(rng, "small") for _ in range(rng.choice([1, 2, 3, 4, 5, 8, 13, 20]))]
        xs = [x for x in xs if numq(x) is not None] or ["3"]
        if rng.random() < 0.15:
            xs = [x for x in xs if classify(x)[0] == "int"] or ["7"]
        f = rng.choice(DSL_ACC + ["median", "percentile", "percentile", "percentiles", "percentiles_map", "sort_collection"])
        if rng.random() < 0.12:          # ints large next to their spread / widely spread: the exact-variance path of the finalizer
            prof = rng.choice(["midints", "wideints"])
            xs = [x for x in (gen_value(rng, prof) for _ in range(rng.choice([2, 3, 4, 5, 6, 20]))) if x != ""] or ["100000000", "100000003"]
            f = rng.choice(["var", "stddev", "meaneb", "mean", "sum"])
        il = rng.random() < 0.4
        half = rng.randint(0, 200)
        if f in ("percentile", "percentiles") and rng.random() < 0.2:
            half = rng.choice([-10, -1, 201, 300, 1000])       # outside 0..100: both forms clamp to the extreme elements
        if f == "percentiles_map":
            half -= half % 2                                    # map key is string(p): keep p integral
        # numerically equal elements written differently (9 and 9.0): which of them an order statistic returns depends on the sorting
        # algorithm (sort.Slice is not stable) and is not a value: keep one spelling per numeric value
        spelling = {}
        xs = [x for x in xs if spelling.setdefault(numq(x), x) == x]
        cases.append({"f": f, "xs": xs, "p": Fraction(half, 2), "il": il})
    return cases


def run_dsl(ctx, cases):
    def num(t):
        return t
    lines = []
    for c in cases:
        p = c["p"]
        ptxt = str(p.numerator) if p.denominator == 1 else "%d.5" % (p.numerator // 2) if p >= 0 else "-%d.5" % ((-p).numerator // 2)
        lines.append('{"f": "%s", "xs": [%s], "p": %s, "il": %s}' % (c["f"], ", ".join(c["xs"]), ptxt, "true" if c["il"] else "false"))
    st, out, err = mlr_run(ctx, ["--ijsonl", "--ojsonl", "put", "-q", DSL_PROG], ("\n".join(lines) + "\n").encode(), timeout=120)
    return classify_run(st, err), out.decode("utf-8", "replace").splitlines(), err.decode("utf-8", "replace")[-800:]


def check_dsl(ctx, terms, meta, oracle_bad):
    n = 250 if ctx.tier == "quick" else 3000
    cases = dsl_cases(ctx, n)
    cls, lines, err = run_dsl(ctx, cases)
    ctx.cov["dsl_functions"] = {"cases": len(cases), "status": cls}
    if cls != "ok" or len(lines) != len(cases):
        ctx.violation({"broken": "dsl-functions-run", "class": "dsl-" + cls, "observed": err, "lines": len(lines), "cases": len(cases)}, found_input=(cls != "ok"))
        return
    for c, line in zip(cases, lines):
        ctx.count(("dsl", c["f"], tuple(c["xs"]), c["p"], c["il"]))
        ctx.dist("dsl:" + c["f"] + (":il" if c["il"] else ""))
        try:
            v = json.loads(line)
        except Exception:
            v = line
        inp = {"f": c["f"], "xs": c["xs"], "p": str(c["p"]), "il": c["il"]}
        if c["f"] == "sort_collection":
            got = [Fraction(str(x)) if not isinstance(x, str) else None for x in v] if isinstance(v, list) else None
            want = sorted(numq(x) for x in c["xs"])
            if got != want:
                oracle_bad.append(({"verb": "dsl", "dsl": inp}, [], [[("r", line)]], {"what": "sort_collection is not the sorted permutation", "observed": line}))
            continue
        t = v if isinstance(v, str) else line.strip()
        name = {"percentile": "p", "percentiles": "p", "percentiles_map": "p"}.get(c["f"], c["f"])
        accname = c["f"]
        if name == "p":
            p = c["p"]
            accname = "p" + (str(p.numerator) if p.denominator == 1 else str(float(p)))
        pname = "p%s" % (c["p"] if c["p"].denominator == 1 else float(c["p"]))
        e = expect_acc(accname if name != "p" else pname, c["xs"], c["il"])
        s = {"verb": "dsl", "acc": accname if name != "p" else pname, "xs": c["xs"], "interp": c["il"], "dsl": inp}
        if not matches(e, t):
            oracle_bad.append((s, [], [[("r", t)]], {"what": "dsl function value", "expected": [str(x) for x in e], "observed": t}))
        terms.append(f"({coq_spec(s)},\n [],\n {coq_obs([[('r', t)]])})")
        meta.append((s, [], [[("r", t)]]))


def check_pctl_grid(ctx, terms, meta, oracle_bad):
    """deterministic percentile grid: for group sizes n (50, 90, 100, 150 and a few seeded ones) EVERY integer p in 0..100,
    non-interpolated and interpolated, through the DSL (one percentiles() call per n and form), stats1 and merge-fields,
    against the exact index floor(p*n/100) / findex p/100*(n-1) (Coq model for the DSL calls, exact-rational oracle for all):
    a float-rounding deviation of the index for any (p, n) of the grid returns a different element and is reported"""
    rng = ctx.rng
    ns = [50, 90, 100, 150] + sorted(rng.sample([k for k in range(2, 201) if k not in (50, 90, 100, 150)], 3 if ctx.tier == "quick" else 25))
    if ctx.tier != "quick":
        ns += [170, 180, 200]
    ps = list(range(0, 101))
    data = {}
    for n in ns:
        xs = [str(3 * i + 1 - n) for i in range(n)]           # distinct ints: the returned element identifies the index
        rng.shuffle(xs)
        data[n] = xs
    # ---- DSL: one mlr process, two lines per n
    prog = 'print json_stringify(percentiles($xs, $ps, {"oa":true})); print json_stringify(percentiles($xs, $ps, {"oa":true, "il":true}));'
    inp = "".join('{"xs": [%s], "ps": [%s]}\n' % (", ".join(data[n]), ", ".join(map(str, ps))) for n in ns)
    st, out, err = mlr_run(ctx, ["--ijsonl", "--ojsonl", "put", "-q", prog], inp.encode(), timeout=120)
    cls = classify_run(st, err)
    lines = out.decode("utf-8", "replace").splitlines()
    ctx.cov["percentile_grid"] = {"group_sizes": ns, "percentiles": "0..100 (integers)", "dsl_status": cls}
    if cls != "ok" or len(lines) != 2 * len(ns):
        ctx.violation({"broken": "percentile-grid-dsl-run", "observed": err.decode("utf-8", "replace")[-600:], "lines": len(lines)}, found_input=(cls != "ok"))
    else:
        for i, n in enumerate(ns):
            for interp, line in ((False, lines[2 * i]), (True, lines[2 * i + 1])):
                vals = json.loads(line, parse_int=str, parse_float=str)
                row = [("p", v if isinstance(v, str) else json.dumps(v)) for v in vals]
                s = {"verb": "pctl-grid", "interp": interp, "ps": ps, "xs": data[n]}
                ctx.count(("pctl-grid", n, interp))
                ctx.dist("pctl-grid:dsl" + (":il" if interp else ""))
                d = oracle(s, [], [row])
                if d is not None:
                    badj = [j for j, (e, (_, t)) in enumerate(zip(oracle_expect_pctl(s), row)) if not matches(e, t)]
                    if badj:                         # shrink to the first failing percentile: a one-line command
                        s1 = dict(s, ps=[ps[badj[0]]])
                        d1 = oracle(s1, [], [[row[badj[0]]]])
                        d1.update({"n": n, "all_failing_percentiles_at_this_n": [ps[j] for j in badj]})
                        oracle_bad.append((s1, [], [[row[badj[0]]]], d1))
                    else:
                        oracle_bad.append((s, [], [row], d))
                terms.append(f"({coq_spec(s)},\n [],\n {coq_obs([row])})")
                meta.append((s, [], [row]))
    # ---- stats1 (-a p0..p100, groups of the grid sizes) and merge-fields (one record with n fields), in-process
    accs = ["p%d" % p for p in ps]
    recs = []
    for n in ns[:5]:
        recs += [[("a", "g%d" % n), ("x", v)] for v in data[n]]
    rng.shuffle(recs)
    cases = [({"verb": "stats1", "accs": accs, "fs": ["x"], "gs": ["a"], "interp": False}, recs),
             ({"verb": "stats1", "accs": accs, "fs": ["x"], "gs": ["a"], "interp": True}, recs)]
    for n in ns[:4]:
        names = ["f%d" % i for i in range(n)]
        cases.append(({"verb": "merge-fields", "mode": "f", "accs": accs, "k": False, "interp": False, "o": "out", "names": names},
                      [[(nm, v) for nm, v in zip(names, data[n])]]))
    results = run_impl_batch(ctx, [(mlr_args(s), r) for s, r in cases])
    for (s, r), (cls, rows, err) in zip(cases, results):
        ctx.count(("pctl-grid", s["verb"], s["interp"], len(r)))
        ctx.dist("pctl-grid:" + s["verb"] + (":i" if s["interp"] else ""))
        if cls != "ok":
            ctx.violation({"broken": "percentile-grid-verb-run", "args": mlr_args(s)[:6], "observed": err}, found_input=True)
            continue
        d = oracle(s, r, rows)
        if d is not None:
            oracle_bad.append((s, r, rows, d))


def oracle_expect_pctl(s):
    return [expect_acc("p%s" % p, s["xs"], s["interp"]) for p in s["ps"]]


def probe_known(ctx):
    """witnesses of the defects this check has found on the unchanged tree (classes listed in c10.findings.md); each is re-probed on every run"""
    # 1. interpolated percentile outside 0..100 indexes past the end of the array
    st, out, err = mlr_run(ctx, ["-n", "put", 'end{print percentiles([1,2,3,4,5],[200],{"interpolate_linearly":true})}'], b"", timeout=300)
    cls = classify_run(st, err)
    ctx.count(("probe", "pctl200"))
    ctx.cov.setdefault("probes", {})["interpolated_percentile_p200"] = cls
    if cls != "ok":
        ctx.violation({"regression_of": "fix 444a9e97f (interpolated percentile outside 0..100 indexed past the end)", "how": "mlr -n put 'end{print percentiles([1,2,3,4,5],[200],{\"interpolate_linearly\":true})}'",
                       "input": "percentiles([1,2,3,4,5],[200],{\"interpolate_linearly\":true})", "observed": cls + ": " + err.decode("utf-8", "replace")[:300],
                       "expected": "the value clamped to the last element (5), as the non-interpolated form does; theorem C10_interpolated_percentile_never_out_of_range"})
    # 4. fraction: a value field first seen in a LATER record of an existing group writes into a nil map
    recs = [[("z", "2")], [("z", "3"), ("y", "4")]]
    s4 = {"verb": "fraction", "fs": ["z", "y"], "gs": [], "p": False, "c": False}
    cls, rows, err = run_mlr(ctx, mlr_args(s4), recs)
    ctx.count(("probe", "fraction-late-field"))
    d = oracle(s4, recs, rows) if cls == "ok" else {"what": cls, "stderr": err[:300]}
    ctx.cov["probes"]["fraction late field"] = "ok" if d is None else str(d)[:120]
    if d is not None:
        ctx.violation({"regression_of": "fix e5f034233 (fraction: nil-map write for a field first seen in a later record of a group)", "args": mlr_args(s4), "input": dkvp(recs, ";", ":").decode(), "observed": rows if cls == "ok" else err,
                       "difference": d, "spec": s4, "expected": "z=2,z_fraction=0.4 / z=3,y=4,z_fraction=0.6,y_fraction=1"})
    # 3. the grouping key joins the group-by texts with ",": distinct text tuples collide
    recs = [[("a", "x,y"), ("b", "z"), ("v", "1")], [("a", "x"), ("b", "y,z"), ("v", "2")]]
    for s in ({"verb": "count", "gs": ["a", "b"], "n": False, "out": "count"},
              {"verb": "stats1", "accs": ["sum", "count"], "fs": ["v"], "gs": ["a", "b"], "interp": False}):
        cls, rows, err = run_mlr(ctx, mlr_args(s), recs)
        ctx.count(("probe", "comma", s["verb"]))
        d = oracle(s, recs, rows) if cls == "ok" else {"what": cls}
        ctx.cov["probes"]["comma-collision " + s["verb"]] = "differs" if d else "ok"
        if d is not None:
            ctx.violation({"class": "group-key-comma-collision", "args": mlr_args(s), "input": dkvp(recs, ";", ":").decode(), "observed": rows if cls == "ok" else err,
                           "difference": d, "spec": s, "expected": "two groups (x,y | z) and (x | y,z): groups are formed by the exact texts of the group-by fields; theorem C10_group_key_exact_text_refuted"})
    # 5. step -a shift_lead_n / slwin_B_F, n, F >= 2: a group with fewer records than the look-ahead (regression of fix: 1cf092ed2)
    for s5, recs in (({"verb": "step", "steppers": ["shift_lead_2"], "fs": ["x"], "gs": []}, [[("x", "1")]]),
                     ({"verb": "step", "steppers": ["shift_lead_3", "counter"], "fs": ["x"], "gs": ["g"]},
                      [[("g", "a"), ("x", "1")], [("g", "b"), ("x", "5")], [("g", "a"), ("x", "2")]]),
                     ({"verb": "step-slwin", "wins": [(1, 2)], "fs": ["x"], "gs": ["g"]},
                      [[("g", "a"), ("x", "1")], [("g", "b"), ("x", "5")], [("g", "a"), ("x", "2")]])):
        cls, rows, err = run_mlr(ctx, mlr_args(s5), recs)
        ctx.count(("probe", "short-group", str(mlr_args(s5))))
        d = oracle(s5, recs, rows) if cls == "ok" else {"what": cls}
        ctx.cov["probes"]["step look-ahead on a short group: " + " ".join(mlr_args(s5))] = "ok" if d is None else str(d)[:100]
        if d is not None:
            ctx.violation({"regression_of": "fix 1cf092ed2 (step: the records of a group shorter than the look-ahead were never emitted)", "args": mlr_args(s5),
                           "input": dkvp(recs, ";", ":").decode(), "observed": rows if cls == "ok" else err, "difference": d, "spec": s5,
                           "expected": "every record is emitted exactly once, e.g. x=1,x_shift_lead_2="})
    # 2. an accumulator (or value field) named twice is one accumulator fed once (regression of fix: df62dcee7)
    recs = [[("x", "3")], [("x", "4")]]
    for args, fld, want in ((["stats1", "-a", "count,count", "-f", "x"], "x_count", "2"), (["stats1", "-a", "sum", "-f", "x,x"], "x_sum", "7"),
                            (["stats1", "-a", "sum,count,sum", "-f", "x,x", "-s"], "x_sum", "3")):
        cls, rows, err = run_mlr(ctx, args, recs)
        ctx.count(("probe", tuple(args)))
        got = dict(rows[0]).get(fld) if cls == "ok" and rows else None
        ctx.cov["probes"][" ".join(args)] = got
        if got != want:
            ctx.violation({"regression_of": "fix df62dcee7 (stats1: a name given twice in -a or -f fed every value twice)", "args": args, "input": dkvp(recs, ";", ":").decode(),
                           "observed": rows if cls == "ok" else err, "expected": f"{fld}={want}"})
    # 6. stats1 --gr/--gx: the matched group-by field NAMES are part of the group (regression of fix: 06ddd9e93)
    recs = [[("a", "1"), ("x", "3")], [("b", "1"), ("x", "4")], [("a", "1"), ("x", "5")]]
    for s6 in ({"verb": "stats1g", "accs": ["sum", "count"], "fsel": {"kind": "f", "names": ["x"]}, "gsel": {"kind": "gr", "names": ["^a$", "^b$"]}, "mode": "end", "w": 1, "interp": False},
               {"verb": "stats1g", "accs": ["sum"], "fsel": {"kind": "fr", "names": ["^x"]}, "gsel": {"kind": "gx", "names": ["x"]}, "mode": "s", "w": 1, "interp": False}):
        cls, rows, err = run_mlr(ctx, mlr_args(s6), recs)
        ctx.count(("probe", "gr-names", str(mlr_args(s6))))
        d = oracle(s6, recs, rows) if cls == "ok" else {"what": cls}
        ctx.cov["probes"]["stats1 regex group-by, same value under different names: " + " ".join(mlr_args(s6))] = "ok" if d is None else str(d)[:100]
        if d is not None:
            ctx.violation({"regression_of": "fix 06ddd9e93 (stats1 --gr/--gx: a=1 and b=1 were one group, the grouping key held the values only)", "args": mlr_args(s6),
                           "input": dkvp(recs, ";", ":").decode(), "observed": rows if cls == "ok" else err, "difference": d, "spec": s6,
                           "expected": "a=1,x_sum=8,x_count=2 / b=1,x_sum=4,x_count=1"})
    # 7. step slwin with a look-back window emits copies (regression of fix: 355abd027): the --jvquoteall writer rewrote the values
    #    of records the window still read; timing-dependent, so the 3-record input is run repeatedly
    recs = [[("x", "1")], [("x", "2")], [("x", "3")]]
    s7 = {"verb": "step-slwin", "wins": [(2, 0)], "fs": ["x"], "gs": []}
    racy = None
    for _ in range(12 if ctx.tier == "quick" else 60):
        cls, rows, err = run_mlr(ctx, mlr_args(s7), recs)
        d = oracle(s7, recs, rows) if cls == "ok" else {"what": cls}
        if d is not None:
            racy = (rows if cls == "ok" else err, d)
            break
    ctx.count(("probe", "slwin-race"))
    ctx.cov["probes"]["step slwin_2_0 with --jvquoteall, repeated"] = "ok" if racy is None else str(racy[1])[:100]
    if racy is not None:
        ctx.violation({"regression_of": "fix 355abd027 (step slwin kept already-emitted records in its look-back window while the writer rewrote them)", "args": mlr_args(s7),
                       "input": dkvp(recs, ";", ":").decode(), "observed": racy[0], "difference": racy[1], "spec": s7, "expected": "x_2_0 = 1, 1.5, 2"})


def probe_variance(ctx):
    """var/stddev/meaneb of ints large next to their spread"""
    # 8. exact integer sums (regression of fix: e0fcab0a9): stats1, merge-fields and the DSL functions share the finalizer
    recs = [[("x", "1700000001")], [("x", "1700000004")], [("x", "1700000002")]]
    s8 = {"verb": "stats1", "accs": ["var", "stddev", "meaneb", "mean"], "fs": ["x"], "gs": [], "interp": False}
    m8 = {"verb": "merge-fields", "mode": "f", "accs": ["var", "meaneb"], "k": False, "interp": False, "o": "out", "names": ["a", "b", "c"]}
    for sp, rr in ((s8, recs), (m8, [[("a", "1700000001"), ("b", "1700000004"), ("c", "1700000002")]])):
        cls, rows, err = run_mlr(ctx, mlr_args(sp), rr)
        ctx.count(("probe", "var-exact-int-sums", sp["verb"]))
        d = oracle(sp, rr, rows) if cls == "ok" else {"what": cls}
        ctx.cov["probes"]["var of three timestamp-scale ints: " + sp["verb"]] = "ok" if d is None else str(d)[:100]
        if d is not None:
            ctx.violation({"regression_of": "fix e0fcab0a9 (var/stddev/meaneb of ints: cancellation in the float formula although the integer sums are exact)", "args": mlr_args(sp),
                           "input": dkvp(rr, ";", ":").decode(), "observed": rows if cls == "ok" else err, "difference": d, "spec": sp, "expected": "var = 7/3 = 2.3333333333333335"})
    st, out, err = mlr_run(ctx, ["-n", "put", "end{print variance([1700000001,1700000004,1700000002]); print stddev({\"a\":100000001,\"b\":100000004,\"c\":100000002,\"d\":100000007})}"], b"", timeout=300)
    got = out.decode("utf-8", "replace").split()
    ctx.count(("probe", "var-exact-int-sums", "dsl"))
    ok8 = classify_run(st, err) == "ok" and len(got) == 2 and matches(("flt", Fraction(7, 3)), got[0]) and matches(("sqrt", Fraction(7)), got[1])
    ctx.cov["probes"]["DSL variance/stddev of ints large next to their spread"] = got
    if not ok8:
        ctx.violation({"regression_of": "fix e0fcab0a9 (DSL variance/stddev of ints)", "input": "variance([1700000001,1700000004,1700000002]); stddev({a:100000001,b:100000004,c:100000002,d:100000007})",
                       "observed": got or err.decode("utf-8", "replace")[:300], "expected": "2.3333333333333335 and 2.6457513110645907"})
    # 9. finding variance-cancellation-float-sums: the sum of squares leaves int64, the float sums cancel
    recs = [[("x", "1700000001")], [("x", "1700000004")], [("x", "1700000002")], [("x", "1700000007")]]
    s9 = {"verb": "stats1", "accs": ["var"], "fs": ["x"], "gs": [], "interp": False}
    cls, rows, err = run_mlr(ctx, mlr_args(s9), recs)
    ctx.count(("probe", "var-float-sums"))
    d = oracle(s9, recs, rows) if cls == "ok" else {"what": cls}
    ctx.cov["probes"]["var of four timestamp-scale ints (float sums)"] = "ok" if d is None else str(d)[:100]
    if d is not None:
        ctx.violation({"class": "variance-cancellation-float-sums", "args": mlr_args(s9), "input": dkvp(recs, ";", ":").decode(), "observed": rows if cls == "ok" else err,
                       "difference": d, "spec": s9, "expected": "x_var=7 (sum (x-mean)^2/(n-1) = 21/3)"})


# ------------------------------------------------------------------ witness classes of genuine defects
def classify_witness(s, recs, diff, rows=None):
    """group-key-comma-collision only when the comma-joined key explains the WHOLE difference"""
    gs = s.get("gs") or (s["gsel"]["names"] if s.get("gsel", {}).get("kind") == "g" else [])
    if rows is not None and s["verb"] != "dsl" and any("," in dict(r).get(g, "") for r in recs for g in gs):
        JOINED_KEYS[0] = True
        try:
            explained = oracle(s, recs, rows) is None
        except Exception:
            explained = False
        finally:
            JOINED_KEYS[0] = False
        if explained:
            return "group-key-comma-collision"
    return "other"


# ------------------------------------------------------------------ main
def run(ctx):
    ctx.cov["rule"] = ("seeded heterogeneous record streams (0..20/40 records; group-by fields a,b from small pools incl. empty text, numeric look-alikes "
                       "1/1.0/01 and values containing the joiner ','; value fields x,y,z missing with p=0.15; profiles: small dyadic decimals+ints "
                       "(moment statistics), wide ints up to 2^61 (exact int arithmetic), text (counting/mode/min/max on strings)) x verbs count, uniq -g [-c|-n], "
                       "count-distinct [-n|-u], count-similar, stats1 [-i] [-w n] with 1..5 accumulators incl. percentiles p0..p100 in steps of 0.5 (model + oracle); "
                       "deterministic percentile grid: group sizes 50, 90, 100, 150 + seeded ones x every integer p in 0..100 x {plain, interpolated} through DSL percentiles() "
                       "(model + oracle), stats1 -a p0..p100 and merge-fields (oracle); "
                       "fill-down, most/least-frequent, fraction, top (oracle only); DSL statistics functions on numeric arrays incl. percentile(s)/median with options and p outside 0..100 (model + oracle); "
                       "compared: every output record (field names, order, values: ints/text exact, order statistics exact, floats as exact rationals within 1e-9) "
                       "between mlr and the Coq model under vm_compute, and against the Python first-principles oracle")
    ctx.cov["trusted_base"] = ["Coq 8.16.1 kernel + vm_compute", "no axioms", "python harness (generator, JSON parsing of mlr output, decimal text -> exact rational)",
                               "float arithmetic modelled exactly over Q and tied by correspondence within 1e-9 on inputs exactly representable in binary64"]
    ctx.assumptions = ["binary64 rounding is not modelled (theorems exact over Q)", "number grammar restricted to canonical ints and d+.d+ decimals in the model"]
    forbidden_gate(ctx, ["Base", "C10"])
    ok, why = check_props(ctx, "C10/Props.v", ["C10/Harness.vo", "C10/Proofs.vo", "C10/ProofsMode.vo", "C10/ProofsMinMax.vo", "C10/ProofsFrac.vo", "C10/ProofsStep.vo"])
    ncases = int(os.environ.get("C10_CASES", "0")) or (640 if ctx.tier == "quick" else 8000)
    terms, meta = [], []
    oracle_bad = []
    run_classes = set()
    gen = [gen_case(ctx.rng, ctx.tier) for _ in range(ncases)]
    with ctx.timed("impl"):
        results = run_impl_batch(ctx, [(mlr_args(s), recs) for s, recs in gen])
        n_cli = 0
        for i, (s, recs) in enumerate(gen):
            args = mlr_args(s)
            cls, rows, err = results[i]
            via = "implrun"
            if i % 40 == 7 and cls == "ok":
                # the same case end to end through the command line (reader, chain, writer): must give the same rows
                cls2, rows2, err2 = run_mlr(ctx, args, recs)
                n_cli += 1
                if cls2 != "ok" or rows != rows2:
                    ctx.violation({"broken": "command-line path differs from in-process verb", "args": args, "input": dkvp(recs, ";", ":").decode(),
                                   "observed_cli": rows2 if cls2 == "ok" else err2, "observed_inprocess": rows, "spec": s}, found_input=True)
                via = "mlr"
            ctx.dist("verb:" + s["verb"] + (":w" if s.get("w") else "") + (":i" if s.get("interp") else ""))
            ctx.dist("profile:" + s.get("profile", "-"))
            ctx.dist("nrec:%d" % len(recs))
            ctx.dist("via:" + via)
            ctx.count((args, recs))
            if cls != "ok":
                wc = "verb-" + cls
                if wc not in run_classes:
                    run_classes.add(wc)
                    ctx.violation({"broken": "verb-run", "class": wc, "args": args, "input": dkvp(recs, ";", ":").decode(), "observed": err, "spec": s,
                                   "expected": "every record passes through with its fraction fields (a record lacking a value field is left out of that accumulation only)"})
                continue
            d = oracle(s, recs, rows)
            if d is None and not counts_add_up(s, recs, rows):
                d = {"what": "counts do not add up to the number of contributing records"}
            if d is not None:
                oracle_bad.append((s, recs, rows, d))
            if s.get("no_model"):                  # ---- extension block: oracle only (most/least-frequent with more than 12 groups)
                ctx.dist("oracle-only:" + s["verb"])
            else:
                terms.append(f"({coq_spec(s)},\n {coq_records(recs)},\n {coq_obs(rows)})")
                meta.append((s, recs, rows))
            if i in (3, 50, 200, 400):
                ctx.sample({"args": args, "input": dkvp(recs, ";", ":").decode(), "observed": rows})
        ctx.cov["cli_cross_checked"] = n_cli
    with ctx.timed("dsl"):
        check_dsl(ctx, terms, meta, oracle_bad)
        check_pctl_grid(ctx, terms, meta, oracle_bad)
        probe_known(ctx)
        probe_variance(ctx)
        from checks.c10_dsl import check_dsl_ext      # DSL statistics functions on strings/maps/empties/options (coq/C10/ModelDsl.v)
        check_dsl_ext(ctx)
    ctx.cov["oracle"] = {"cases": len(meta), "disagreements": len(oracle_bad)}
    if not ok:
        if oracle_bad:
            s, recs, rows, d = min(oracle_bad, key=lambda x: len(x[1]))
            ctx.violation({"broken": why, "args": mlr_args(s), "input": dkvp(recs, ";", ":").decode(), "observed": rows, "difference": d,
                           "class": classify_witness(s, recs, d, rows)})
        else:
            ctx.violation({"broken": why}, found_input=False)
        return
    with ctx.timed("coq_cases"):
        bad, err = coq_eval_mismatches(ctx, "C10", "C10.Model C10.Verbs C10.Verbs2 C10.Verbs3 C10.Verbs4 C10.Verbs5 C10.Harness", "vspec * list record * list obsrec", "chk", terms, shard=len(terms) // 2 + 1)   # at most two coqc processes at a time
    ctx.cov["correspondence"] = {"cases": len(terms), "mismatches": len(bad)}
    if err:
        ctx.violation({"broken": "correspondence-evaluation", "detail": err[-2000:]}, found_input=False)
        return
    reported = 0
    reported_verbs = set()                     # one report per verb, at most six: a defect of one verb must not hide another verb's
    for i in bad[:200]:
        s, recs, rows = meta[i]
        if s["verb"] in reported_verbs:
            continue
        reported_verbs.add(s["verb"])
        if s["verb"] == "pctl-grid" and len(s["ps"]) > 1:      # shrink to the first percentile the oracle rejects
            badj = [j for j, (e, (_, t)) in enumerate(zip(oracle_expect_pctl(s), rows[0])) if not matches(e, t)]
            if badj:
                s, rows = dict(s, ps=[s["ps"][badj[0]]]), [[rows[0][badj[0]]]]
        if s["verb"] == "dsl":
            e_, t_ = expect_acc(s["acc"], s["xs"], s["interp"]), rows[0][0][1]
            d = None if matches(e_, t_) else {"what": "dsl function value", "expected": [str(x) for x in e_], "observed": t_}
        else:
            d = oracle(s, recs, rows)
        rep = {"broken": "correspondence C10.Harness.chk", "args": mlr_args(s), "input": dkvp(recs, ";", ":").decode(), "observed": rows, "spec": s}
        if d is not None:
            reported += 1 if ctx.violation(dict(rep, difference=d, **{"class": classify_witness(s, recs, d, rows)})) else 0
        else:
            reported += 1 if ctx.violation(dict(rep, note="model and implementation differ; the first-principles oracle agrees with the implementation"), found_input=False) else 0
        if reported >= 6:
            break
    seen_classes = set()
    for s, recs, rows, d in sorted(oracle_bad, key=lambda x: len(x[1])):
        cl = classify_witness(s, recs, d, rows)
        if (cl, s["verb"]) in seen_classes or len(seen_classes) >= 8:
            continue
        seen_classes.add((cl, s["verb"]))
        ctx.violation({"broken": "first-principles oracle", "args": mlr_args(s), "input": dkvp(recs, ";", ":").decode(), "observed": rows,
                       "difference": d, "class": cl, "spec": s})


def replay(ctx, path):
    obj = json.loads(Path(path).read_text())
    s = obj.get("spec")
    if obj.get("regression_of") or obj.get("class") == "variance-cancellation-float-sums" or (s and s.get("verb") == "dsl"):
        ctx.cov["probes"] = {}
        if s and s.get("verb") == "dsl":
            bad = []
            c = dict(s["dsl"], p=Fraction(s["dsl"]["p"]))
            cls, lines, err = run_dsl(ctx, [c])
            print("replay: dsl %s -> %s %s" % (s["dsl"], cls, lines))
            ctx.count(("dsl", str(c)))
            if cls != "ok":
                ctx.violation(dict(obj, replayed=True, observed=err))
            return
        probe_known(ctx)
        probe_variance(ctx)
        return
    if not s:
        print("replay: no spec stored")
        return
    recs = [[tuple(f.split(":", 1)) for f in line.split(";")] for line in obj["input"].splitlines() if line]
    cls, rows, err = run_mlr(ctx, mlr_args(s), recs)
    ctx.count((s, recs))
    d = oracle(s, recs, rows) if cls == "ok" else {"what": cls, "stderr": err}
    print("replay: args=%s difference=%s" % (mlr_args(s), d))
    if d is not None:
        ctx.violation(dict(obj, replayed=True, observed=rows, difference=d))
