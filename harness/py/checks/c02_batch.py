"""C02: many mlr command lines in few processes.  Thin wrapper over checks/c05_batch.py (implrun mlr-batch: the real
climain.ParseCommandLine + stream.Stream per job): the stdin of a job is written to a temporary file whose name is
appended to the argv (mlr-batch does not serve stdin).  Jobs that need an environment variable (.mlrrc) still go through
the mlr binary.  A sample of the batch jobs is cross-checked against the binary on every run (c05_batch.crosscheck)."""
import os, shutil, tempfile
from vlib import *
try:
    from checks import c05_batch
except Exception:  # pragma: no cover
    import c05_batch


def run_jobs(ctx, jobs, label="impl_batch", timeout=300, crosscheck=3):
    """jobs: [(args, stdin_bytes)] -> [(status, stdout_bytes, err_bytes)] in order.
    status: 0 | 1 (mlr error) | 2 (panic) | 'died' | 'hang' (the latter are retried once through the binary)."""
    if not jobs:
        return []
    tmp = tempfile.mkdtemp(prefix="c02batch-", dir="/tmp")
    try:
        bj, cache = [], {}
        for i, (args, stdin) in enumerate(jobs):
            if stdin not in cache:
                p = os.path.join(tmp, "in%d" % len(cache))
                with open(p, "wb") as f:
                    f.write(stdin)
                cache[stdin] = p
            bj.append((list(args) + [cache[stdin]], tmp))
        res = c05_batch.run_batch(ctx, bj, timeout=timeout, label=label)
        out = []
        for (args, stdin), r in zip(jobs, res):
            if r is None or r[0] in ("died", "hang", 3):
                st, o, e = mlr_run(ctx, list(args), stdin, timeout=120)     # os.Exit inside a writer, or a hang: ask the binary
                out.append((st, o, e))
                ctx.dist("batch_jobs_rerun_through_binary")
            else:
                out.append(r)
        if crosscheck:
            c05_batch.crosscheck(ctx, bj, res, k=crosscheck)
        return out
    finally:
        shutil.rmtree(tmp, ignore_errors=True)
