"""C09 -- sort and the sorting functions return a correctly ordered permutation (DESIGN 3/C09).

The Coq side does not predict pdqsort: a verified boolean checker (C09.Model.check_sort, sound for C09.Proofs.sort_spec)
is RUN ON THE IMPLEMENTATION'S OUTPUT under vm_compute.  The same specification restated in Python (independent
comparators: documented collation, not the code's) is the failing-input search."""
import json, os, struct
from vlib import *
from checks import c06, c11

SCALE = float(os.environ.get("VERIF_SCALE", "1") or 1)
PAR = int(os.environ.get("VERIF_PAR", "2") or 2)          # number of coqc processes evaluating case shards at once
FLAGS = ["-f", "-r", "-c", "-cr", "-nf", "-nr", "-t", "-tr"]          # code = index
SPELL = {"-nf": [["-nf"], ["-n"]], "-nr": [["-nr"]], "-tr": [["-tr"], ["-rt"]]}
NUMS = [b"1", b"1.0", b"0x1", b"1e0", b"-4", b"2.5", b"10", b"9", b"-0.5", b"0", b"-0", b"100", b"0xff", b"3", b"7.25", b"1e3", b"-1e-2", b"12345678901"]
STRS = [b"", b"abc", b"Abc", b"ABC", b"b", b"B", b"a", b"pan", b"Pan", b"wye", b"zee", b"0XA", b"0aa", b"0xa", b"1E2", b"1e2x", b"x,y", b"y,z", b"x", b"true", b"-", b"1_000"]
# integers beyond 2^53 that ARE exactly representable as doubles (multiples of the binade's ulp), and equal-valued floats
BIGS = [b"9007199254740992", b"9007199254740992.0", b"9007199254740994", b"-9007199254740994", b"9223372036854774784", b"-9223372036854775808",
        b"9.223372036854775e18", b"0x7ffffffffffffc00", b"1152921504606847232", b"1152921504606847232.0", b"-1152921504606846976", b"9007199254740996"]
# natural order, clean domain (no digit run above 2^63-1): leading zeros, ties between distinct texts, digit/non-digit chunk clashes, empty
NATS2 = [b"01", b"1", b"001", b"1a", b"01a", b"1b", b"a", b"a1", b"a01", b"a1b", b"a01b", b"a1c", b"a2", b"a10", b"10", b"9", b"09", b"", b"-1", b" 1", b"a-1", b"a:1",
         b"9223372036854775807", b"9223372036854775806", b"a9223372036854775807b", b"x9y10", b"x09y9", b"x9y09", b"1.5", b"1.05", b"1.10"]
# digit runs above 2^63-1: strconv.Atoi fails, the run is compared bytewise (recorded finding)
NATS_OVF = [b"100000000000000000000", b"9223372036854775808", b"a100000000000000000000", b"18446744073709551616", b"00000000000000000000000000009223372036854775808"]
NATS = [b"a1", b"a2", b"a10", b"a20", b"b1", b"b3", b"file9", b"file10", b"file100", b"x", b"y7z", b"y10z"]


# ------------------------------------------------------------------ documented collation, in Python (oracle only)
def infer(s):
    return c06.ref_infer(s, "default")


def fval(bits):
    return struct.unpack(">d", struct.pack(">Q", bits))[0]


def cmp3(a, b):
    return -1 if a < b else 1 if a > b else 0


def num_cmp(a, b):
    """numbers by value, then empties, then strings (lexically)"""
    ia, ib = infer(a), infer(b)
    na, nb = ia[0] in ("int", "float"), ib[0] in ("int", "float")
    if na and nb:
        if ia[0] == "int" and ib[0] == "int":
            return cmp3(ia[1], ib[1])
        va = float(ia[1]) if ia[0] == "int" else fval(ia[1])
        vb = float(ib[1]) if ib[0] == "int" else fval(ib[1])
        return cmp3(va, vb)
    if na:
        return -1
    if nb:
        return 1
    return cmp3(a, b)


def nat_less(a, b):
    import re
    ca, cb = re.findall(rb"(\d+|\D+)", a), re.findall(rb"(\d+|\D+)", b)
    for i, x in enumerate(ca):
        if i >= len(cb):
            return False
        y = cb[i]
        if x.isdigit() and y.isdigit() and int(x) < 2 ** 63 and int(y) < 2 ** 63:       # strconv.Atoi succeeds on both
            if int(x) == int(y):
                if i == len(ca) - 1:
                    return True
                if i == len(cb) - 1:
                    return False
                continue
            return int(x) < int(y)
        if x == y:
            if i == len(ca) - 1:
                return True
            if i == len(cb) - 1:
                return False
            continue
        return x < y
    return False


def nat_cmp(a, b):
    """the DOCUMENTED natural order (oracle; not the code's): empties first; chunk lists compared lexicographically, digit
    runs by integer value of ANY size, other chunks bytewise, a proper prefix first; texts whose chunks are all equal
    (01 and 1) tie, so that later keys decide"""
    import re
    if a == b:
        return 0
    if a == b"":
        return -1
    if b == b"":
        return 1
    ca, cb = re.findall(rb"(\d+|\D+)", a), re.findall(rb"(\d+|\D+)", b)
    for x, y in zip(ca, cb):
        c = cmp3(int(x), int(y)) if (x.isdigit() and y.isdigit()) else cmp3(x, y)
        if c:
            return c
    return cmp3(len(ca), len(cb))


def nat_overflow(v):
    import re
    return any(int(x) >= 2 ** 63 for x in re.findall(rb"\d+", v))


def natural_class(ks, inp):
    """the recorded finding class an 'ordered by the keys' violation of a natural-order sort falls under, or 'other'"""
    nat = [(i, k) for i, (k, c) in enumerate(ks) if c in (6, 7)]
    vals = lambda k: [dict(r)[k] for r in inp if k in dict(r)]
    if any(nat_overflow(v) for _, k in nat for v in vals(k)):
        return "natural-digit-run-above-int64-compared-bytewise"
    for i, k in nat:
        vs = sorted(set(vals(k)))
        if i < len(ks) - 1 and any(nat_cmp(x, y) == 0 for a, x in enumerate(vs) for y in vs[a + 1:]):
            return "natural-ties-hide-later-keys"
    return "other"


def flag_cmp(code, a, b, fold_numbers=True):
    if code == 0:
        return cmp3(a, b)
    if code == 1:
        return cmp3(b, a)
    if code in (2, 3, 8, 9):
        fa = a.lower() if (fold_numbers or code >= 8 or infer(a)[0] == "string") else a
        fb = b.lower() if (fold_numbers or code >= 8 or infer(b)[0] == "string") else b
        return cmp3(fa, fb) if code in (2, 8) else cmp3(fb, fa)
    if code == 4:
        return num_cmp(a, b)
    if code == 5:
        return -num_cmp(a, b)
    if code == 6:
        return nat_cmp(a, b)
    if code == 7:
        return nat_cmp(b, a)
    if code == 10:
        return 0 if a == b else -1 if nat_less(a, b) else 1 if nat_less(b, a) else 0
    if code == 11:
        return 0 if a == b else -1 if nat_less(b, a) else 1 if nat_less(a, b) else 0
    raise ValueError(code)


def chain(ks, ra, rb, fold_numbers=True):
    for k, code in ks:
        c = flag_cmp(code, ra[k], rb[k], fold_numbers)
        if c:
            return c
    return 0


def oracle(ks, inp, out, fold_numbers=True, verb=True):
    """the property on (input, output); returns (law, detail) or None"""
    names = [k for k, _ in ks]
    keyed = [r for r in inp if all(n in dict(r) for n in names)]
    spill = [r for r in inp if not all(n in dict(r) for n in names)]
    if sorted(map(tuple, out)) != sorted(map(tuple, inp)):
        return ("output is a permutation of the input, records unchanged", None)
    if out[len(keyed):] != spill:
        return ("records lacking a sort key follow all others in input order", None)
    o = out[:len(keyed)]
    ds = [dict(r) for r in o]
    for i in range(len(o)):
        for j in range(i + 1, len(o)):
            if chain(ks, ds[j], ds[i], fold_numbers) < 0:
                return ("ordered by the keys in precedence order", [c11.show([o[i]])[0], c11.show([o[j]])[0]])
    if not verb:
        return None         # arrays / maps: equal-comparing elements may come out in any order
    # identical key texts keep input order
    pos = {}
    for r in keyed:
        t = tuple(dict(r)[n] for n in names)
        pos.setdefault(t, []).append(r)
    seen = {}
    for r in o:
        t = tuple(dict(r)[n] for n in names)
        seen.setdefault(t, []).append(r)
    if any(seen[t] != pos[t] for t in pos):
        return ("records with identical key texts keep their input order", None)
    return None


def stable_oracle(ks, inp, out):
    """documentation: 'The sort is stable: records that compare equal will sort in the order they were encountered'.
    Checked at the granularity the verb works at: groups of identical key text whose heads compare equal must come out
    in first-appearance order (records with identical key text always travel together -- the property statement)."""
    names = [k for k, _ in ks]
    keyed = [r for r in inp if all(n in dict(r) for n in names)]
    first, heads = {}, {}
    for i, r in enumerate(keyed):
        t = b",".join(dict(r)[n] for n in names)
        if t not in first:
            first[t] = i
            heads[t] = dict(r)
    order = []
    for r in out[:len(keyed)]:
        t = b",".join(dict(r)[n] for n in names)
        if t not in first:
            return None
        if t not in order:
            order.append(t)
    for a in range(len(order)):
        for b in range(a + 1, len(order)):
            if first[order[a]] > first[order[b]] and chain(ks, heads[order[a]], heads[order[b]], False) == 0:
                return [order[a].decode("latin1"), order[b].decode("latin1")]
    return None


# ------------------------------------------------------------------ generation
def gen_sort_case(rng, nmax):
    nk = rng.choice([1, 1, 1, 2, 2, 3])
    names = rng.sample([b"a", b"x", b"y", b"t"], nk)
    ks = []
    for n in names:
        if n == b"t":
            code = rng.choice([6, 7])
        elif n == b"a":
            code = rng.choice([0, 1, 2, 3, 2, 3, 4, 5])
        else:
            code = rng.choice([4, 5, 4, 5, 0, 1, 2])
        ks.append((n, code))
    n = rng.choice([0, 1, 2, 5, 9, 14, 20, nmax]) if rng.random() < 0.6 else rng.randint(0, nmax)
    pa = rng.sample(STRS, rng.choice([3, 6, len(STRS)])) + rng.sample(NUMS, rng.choice([0, 2, 5]))
    px = rng.sample(NUMS, rng.choice([3, 8, len(NUMS)])) + rng.sample(STRS, rng.choice([0, 1, 3])) + rng.sample(BIGS, rng.choice([0, 0, 3, len(BIGS)]))
    recs = []
    for i in range(n):
        r = []
        if rng.random() < 0.93:
            r.append((b"a", rng.choice(pa)))
        if rng.random() < 0.93:
            r.append((b"x", rng.choice(px)))
        if rng.random() < 0.9:
            r.append((b"y", rng.choice(px[:4])))
        if rng.random() < 0.9:
            r.append((b"t", rng.choice(NATS + [b""])))
        r.append((b"i", str(i).encode()))
        rng.shuffle(r)
        recs.append(r)
    args = ["sort"]
    for nme, code in ks:
        f = FLAGS[code]
        sp = rng.choice(SPELL.get(f, [[f]]))
        if f in ("-nf", "-nr", "-cr", "-tr") and rng.random() < 0.15:
            sp = {"-nf": ["-n", "-f"], "-nr": ["-n", "-r"], "-cr": ["-c", "-r"], "-tr": rng.choice([["-t", "-r"], ["-r", "-t"]])}[f]
        args += sp + [nme.decode()]
    return ks, args, recs


def gen_natural_case(rng):
    """natural-order keys.  'nat': the clean domain (no digit run above 2^63-1, natural key last): the full verified checker
    applies.  'natpair': two records, ANY texts (a two-element sort is decided by one callback result: the comparator model
    against the code, overflowing runs included).  'natweak': inputs on which the callback is not a strict weak order
    (recorded findings): at most 12 groups (insertion sort), the weak verified checker applies."""
    mode = rng.random()
    code = rng.choice([6, 7])
    tflag = rng.choice(SPELL.get(FLAGS[code], [[FLAGS[code]]]))
    if mode < 0.45:
        kind, n = "nat", rng.choice([2, 3, 5, 8, 12, 16])
        pool = rng.sample(NATS2, rng.choice([4, 8, len(NATS2)])) + rng.sample(NATS, 3)
        lead = rng.random() < 0.4
        ks = ([(b"a", rng.choice([0, 1, 2]))] if lead else []) + [(b"t", code)]
        recs = [[(b"a", rng.choice([b"p", b"q", b"P"])), (b"t", rng.choice(pool)), (b"i", str(i).encode())] for i in range(n)]
    elif mode < 0.7:
        kind, n = "natpair", 2
        pool = NATS2 + NATS_OVF + NATS_OVF + [b"9", b"10", b"99999999999999999999", b"a9", b"a99999999999999999999b"]
        ks = [(b"t", code)]
        recs = [[(b"t", rng.choice(pool)), (b"i", str(i).encode())] for i in range(n)]
    elif mode < 0.85:
        # distinct texts natsort deems equal (01, 1) tie since the repair of natural-ties-hide-later-keys: the later key decides,
        # the callback is a strict weak order and the full checker applies
        kind, n = "nat", rng.choice([3, 4, 6, 9, 14])
        pool = [b"01", b"1", b"001", b"1a", b"01a", b"a1", b"a01", b"2", b"02"]
        c2 = rng.choice([0, 1, 4])
        ks = [(b"t", code), (b"b", c2)]
        recs = [[(b"t", rng.choice(pool)), (b"b", rng.choice([b"1", b"2", b"3"] if c2 == 4 else [b"y", b"z", b"x"])), (b"i", str(i).encode())] for i in range(n)]
    else:
        kind, n = "natweak", rng.choice([3, 4, 6, 10])
        pool = rng.sample(NATS_OVF, 2) + [b"9", b"10", b"1", b"2", b"99", b"a9", b"a10"]
        ks = [(b"t", code)]
        recs = [[(b"t", rng.choice(pool)), (b"i", str(i).encode())] for i in range(n)]
    args = ["sort"]
    for nme, c in ks:
        args += (tflag if c in (6, 7) else [FLAGS[c]]) + [nme.decode()]
    return kind, ks, args, recs


def gen_many_groups(rng):
    """> 12 distinct groups that compare equal under the comparator (1, 1.0, 0x1, 1e0 ... / case variants);
    two-key sorts whose values contain the joiner of the grouping key"""
    if rng.random() < 0.2:
        recs = [[(b"a", a), (b"b", b), (b"i", str(i).encode())] for i, (a, b) in
                enumerate(rng.choice([(b"x,y", b"z"), (b"x", b"y,z"), (b"x", b"zz"), (b"x", b"a"), (b"x,y", b"a")]) for _ in range(rng.randint(3, 7)))]
        ca, cb = rng.choice([0, 1]), rng.choice([0, 1])
        return [(b"a", ca), (b"b", cb)], ["sort", FLAGS[ca], "a", FLAGS[cb], "b"], recs
    if rng.random() < 0.5:
        vals = [b"1", b"1.0", b"0x1", b"1e0", b"1.00", b"01e0", b"1.", b"1e-0", b"+1", b"0x01", b"1E0", b"1.000", b"+1.0", b"1.0e0", b"0b1", b"0o1"]
        code = rng.choice([4, 5])
    else:
        vals = [b"abcd", b"Abcd", b"aBcd", b"abCd", b"abcD", b"ABcd", b"AbCd", b"AbcD", b"aBCd", b"aBcD", b"abCD", b"ABCd", b"ABcD", b"AbCD", b"aBCD", b"ABCD"]
        code = rng.choice([2, 3])
    rng.shuffle(vals)
    n = rng.choice([13, 14, 16])
    recs = [[(b"a", v), (b"i", str(i).encode())] for i, v in enumerate(vals[:n])]
    extra = [[(b"a", rng.choice([b"0", b"2", b"zz"])), (b"i", b"e")] for _ in range(rng.randint(0, 3))]
    recs = recs + extra
    rng.shuffle(recs)
    return [(b"a", code)], ["sort", FLAGS[code], "a"], recs


FRACS = [b"0.5", b"0.25", b"0.9", b"0.1", b"0.75", b"0.3", b"1.5", b"2", b"2.25", b"3.5", b"-0.2", b"-0.45", b"0.26", b"1e-3", b"0.0011", b"7"]
UDF_BODIES = ["{x} - {y}", "({x} - {y}) / 10", "({x} - {y}) * 0.001", "({x} - {y}) * 1000000", "{x} <=> {y}", "({x} <=> {y}) / 4", "({x} <=> {y}) * 2.5e9",
              "({x} - {y}) / 1024.0"]


def udf_comparator(rng, x, y, prefix="c"):
    """(flag code, function name, body).  Distinct names per body: the in-process driver shares one UDF table."""
    i = rng.randrange(len(UDF_BODIES))
    desc = rng.random() < 0.5
    body = UDF_BODIES[i].format(x=y, y=x) if desc else UDF_BODIES[i].format(x=x, y=y)
    return (5 if desc else 4), "%s%d%s" % (prefix, i, "d" if desc else "a"), body


DSL_FLAGS = [("f", 0), ("fr", 1), ("c", 8), ("cr", 9), ("", 4), ("n", 4), ("nr", 5), ("t", 10), ("tr", 11), ("rc", 9), ("rt", 11)]


def gen_dsl_case(rng):
    mode = rng.random()
    if mode < 0.12:
        code = 4
        pool = rng.sample(STRS + NUMS, 12)
        prog = '@a[NR] = $v; end { for (e in sort_collection(get_values(@a))) { emit1 {"v": e} } }'
    elif mode < 0.62:
        fl, code = rng.choice(DSL_FLAGS)
        pool = NATS if code in (10, 11) else rng.sample(STRS + NUMS, 12)
        prog = '@a[NR] = $v; end { for (e in sort(get_values(@a), "%s")) { emit1 {"v": e} } }' % fl
    else:
        # user comparator.  Documented contract: "returning < 0, 0, or > 0 as a < b, a == b, or a > b" -- ANY negative / zero /
        # positive number: subtraction-style comparators give fractions in (-1, 1) for close values and huge magnitudes
        # for scaled ones.  On numbers every body below has the sign of the numeric order.  ('<=>' on mixed number/string
        # operands is the DSL's string comparison, not an ordering -- outside the property's domain.)
        code, fn, body = udf_comparator(rng, "a", "b")
        pool = rng.sample(NUMS + FRACS, 12)
        prog = 'func %s(a, b) { return %s } @a[NR] = $v; end { for (e in sort(get_values(@a), %s)) { emit1 {"v": e} } }' % (fn, body, fn)
    n = rng.choice([1, 2, 3, 8, 15])
    recs = [[(b"v", rng.choice(pool))] for _ in range(n)]
    return [(b"v", code)], ["put", "-q", prog], recs


MAPKEYS_STR = [b"a", b"B", b"abc", b"Abc", b"ABD", b"b", b"pan", b"Pan", b"wye", b"zee", b"x,y", b"a1", b"a2", b"a10", b"file9", b"file10"]
MAPKEYS_NUM = [b"1", b"10", b"9", b"2.5", b"-4", b"0", b"100", b"1.0", b"7.25", b"-0.5", b"33"]


def gen_map_case(rng):
    """sort(map, flags | function) through one record: '$* = sort($*, ...)'.  The case handed to the checker has one
    record (k: key, v: value) per map entry, in input resp. output order."""
    n = rng.choice([1, 2, 5, 9, 14])
    by_value = rng.random() < 0.55
    mode = rng.random()
    if mode < 0.35:
        # user comparator (four arguments): any negative / zero / positive result, see udf_comparator
        if by_value:
            keys = rng.sample(MAPKEYS_STR, min(n, len(MAPKEYS_STR)))
            vals = [rng.choice(NUMS + FRACS) for _ in keys]
            code, fn, body = udf_comparator(rng, "av", "bv", prefix="mv")
        else:
            desc = rng.random() < 0.5
            keys = rng.sample(MAPKEYS_STR + [b"1", b"10", b"9"], min(n, 12))      # map keys reach the function as strings
            vals = [rng.choice(STRS) for _ in keys]
            fn, body = ("mkdesc", "bk <=> ak") if desc else ("mkasc", "ak <=> bk")
            code = 1 if desc else 0
        prog = "func %s(ak, av, bk, bv) { return %s } $* = sort($*, %s)" % (fn, body, fn)
    else:
        fl, code = rng.choice(DSL_FLAGS)
        nat = code in (10, 11)
        if by_value:
            keys = rng.sample(MAPKEYS_STR, min(n, len(MAPKEYS_STR)))
            pool = [x.lower() for x in NATS] if nat else STRS + NUMS        # sortMNatural lower-cases before natsort
            vals = [rng.choice(pool) for _ in keys]
            fl = fl + "v"
        else:
            if code in (4, 5):
                # numeric and non-numeric keys mixed: numbers by value before strings (since the repair of
                # dsl-sort-map-keys-number-vs-string-compared-lexically); keys on which strconv.ParseFloat and Miller's inference agree
                pool = MAPKEYS_NUM + [k for k in MAPKEYS_STR if k not in (b"x,y",)]
                keys = rng.sample(pool, min(n, len(pool))) if rng.random() < 0.7 else rng.sample(MAPKEYS_NUM, min(n, len(MAPKEYS_NUM)))
            elif nat:
                keys = rng.sample([x for x in MAPKEYS_STR if x == x.lower()], min(n, 9))
            else:
                keys = rng.sample(MAPKEYS_STR, min(n, len(MAPKEYS_STR)))
            vals = [rng.choice(STRS + NUMS) for _ in keys]
        prog = '$* = sort($*, "%s")' % fl
    rec = list(zip(keys, vals))
    return [((b"v" if by_value else b"k"), code)], ["put", prog], [rec]


def gen_top_case(rng):
    n = rng.choice([0, 1, 3, 6, 10, 15])
    k = rng.choice([1, 1, 2, 3, n + 1])
    domax = rng.random() < 0.6
    hasg = rng.random() < 0.5
    fs = rng.choice([[b"a"], [b"a", b"b"]]) if hasg else []
    pool = rng.sample(NUMS, rng.choice([4, 8, len(NUMS)])) + rng.sample(STRS, rng.choice([0, 0, 2]))
    recs = []
    for i in range(n):
        r = [(b"a", rng.choice([b"pan", b"eks", b"wye"])), (b"b", rng.choice([b"1", b"2"]))]
        if rng.random() < 0.9:
            r.append((b"x", rng.choice(pool)))
        if rng.random() < 0.1:
            r = r[1:]
        r.append((b"i", str(i).encode()))
        recs.append(r)
    args = ["top", "-n", str(k), "-f", "x", "-a"] + ([] if domax else ["--min"]) + (["-g", b",".join(fs).decode()] if hasg else [])
    ks = [(b"x", 1 if domax else 0), (str(k).encode(), 0)] + [(f, 0) for f in fs]
    return ks, args, recs


def top_oracle(ks, inp, out):
    x, domax, k, fs = ks[0][0], ks[0][1], int(ks[1][0]), [f for f, _ in ks[2:]]
    elig = [r for r in inp if x in dict(r) and all(f in dict(r) for f in fs)]
    groups = {}
    for r in elig:
        groups.setdefault(tuple(dict(r)[f] for f in fs), []).append(r)
    og = {}
    for r in out:
        if r not in elig:
            return "every output record is an input record having the value and group-by fields"
        og.setdefault(tuple(dict(r)[f] for f in fs), []).append(r)
    if [r for g in groups for r in og.get(g, [])] != out:
        return "groups in first-appearance order"
    better = (lambda a, b: num_cmp(a, b) > 0) if domax else (lambda a, b: num_cmp(a, b) < 0)
    for g, G in groups.items():
        O = og.get(g, [])
        if len(O) != min(k, len(G)):
            return "min(k, group size) records per group"
        rest = list(G)
        for r in O:
            if r not in rest:
                return "no record twice"
            rest.remove(r)
        vo = [dict(r)[x] for r in O]
        if any(better(vo[j], vo[i]) for i in range(len(vo)) for j in range(i + 1, len(vo))):
            return "best first"
        if any(better(dict(r)[x], v) for r in rest for v in vo):
            return "no record left out is strictly better than a chosen one"
    return None


# ------------------------------------------------------------------ sort-within-records with options, nested (JSON) records
JKEYS = ["a", "b", "c", "x", "y", "z", "k1", "k2", "k10", "K", "B", "01", "1", "001", "id", "meta", "_", "a,b", "zz", "m"]


def gen_jmap(rng, depth, sorted_keys=False, nmax=5):
    n = rng.choice([0, 1, 2, 3, nmax])
    keys = rng.sample(JKEYS, min(n, len(JKEYS)))
    if sorted_keys:
        keys.sort(key=lambda k: k.encode())
    out = []
    for k in keys:
        t = rng.random()
        if depth > 0 and t < 0.4:
            v = dict_pairs(gen_jmap(rng, depth - 1))
        elif depth > 0 and t < 0.5:
            v = [rng.choice([1, "s", dict_pairs(gen_jmap(rng, depth - 1, nmax=3))]) for _ in range(rng.choice([0, 1, 2]))]
        else:
            v = rng.choice([1, 2, 30, "v", "w1", "", "x y"])
        out.append((k, v))
    return out


class dict_pairs(list):
    """an ordered JSON object as a list of (key, value) pairs"""


def jdump(v):
    if isinstance(v, dict_pairs):
        return "{" + ", ".join(json.dumps(k) + ": " + jdump(x) for k, x in v) + "}"
    if isinstance(v, list):
        return "[" + ", ".join(jdump(x) for x in v) + "]"
    return json.dumps(v)


def jterm(v):
    if isinstance(v, dict_pairs):
        return "(JM %s)" % coq_list(["(%s, %s)" % (coq_bytes(k.encode()), jterm(x)) for k, x in v])
    if isinstance(v, list):
        return "(JA %s)" % coq_list([jterm(x) for x in v])
    return "(JS %s)" % coq_bytes(json.dumps(v).encode())


def jrec_term(r):
    return coq_list(["(%s, %s)" % (coq_bytes(k.encode()), jterm(x)) for k, x in r])


def jflat(v, path=()):
    if isinstance(v, dict_pairs):
        return [pl for k, x in v for pl in jflat(x, path + (k,))]
    return [(path, jdump(v))]


def gen_swr_json_case(rng):
    mode = rng.random()
    recurse = natural = False
    sel = None
    if mode < 0.5:
        recurse = True
        natural = rng.random() < 0.3
    elif mode < 0.7:
        natural = rng.random() < 0.5
    else:
        sel = rng.sample(JKEYS, rng.choice([1, 2, 4]))
        natural = rng.random() < 0.3
    recs = [dict_pairs(gen_jmap(rng, 2 if recurse else 1, sorted_keys=rng.random() < 0.5, nmax=rng.choice([5, 8]))) for _ in range(rng.choice([1, 2, 3]))]
    args = ["sort-within-records"] + (["-f", ",".join(sel)] if sel is not None and "," not in "".join(sel) else []) + (["-r"] if recurse else []) + (["-n"] if natural else [])
    if sel is not None and "," in "".join(sel):
        sel = [k for k in sel if "," not in k] or ["a"]
        args = ["sort-within-records", "-f", ",".join(sel)] + (["-n"] if natural else [])
    return args, recurse, natural, sel, recs


def swr_json_oracle(recurse, natural, sel, inp, out):
    """the property on (input, output) of sort-within-records with options"""
    if len(inp) != len(out):
        return "one output record per input record"
    def asc(keys):
        ks = [k.encode() for k in keys]
        return all((nat_cmp(ks[i], ks[i + 1]) <= 0) if natural else (ks[i] <= ks[i + 1]) for i in range(len(ks) - 1))
    def levels(v):
        if isinstance(v, dict_pairs):
            yield [k for k, _ in v]
            for _, x in v:
                yield from levels(x)
    for a, b in zip(inp, out):
        if sorted(jflat(a)) != sorted(jflat(b)):
            return "every value is kept under its path (nested maps included; arrays untouched)"
        if sel is None:
            tops = list(levels(b)) if recurse else [[k for k, _ in b]]
            if not all(asc(t) for t in tops):
                return "keys ascending" + (" at every level" if recurse else "")
        else:
            kb = [k for k, _ in b]
            first = [k for k in kb if k in sel]
            if kb[:len(first)] != first or not asc(first):
                return "the selected fields come first, in ascending order"
            if [k for k in kb[len(first):]] != [k for k, _ in a if k not in sel]:
                return "the other fields follow in record order"
    return None


def run_swr_json(ctx, rng, n, oracle_bad):
    terms, meta = [], []
    gen = [gen_swr_json_case(rng) for _ in range(n)]
    texts = ["\n".join(jdump(r) for r in g[4]) + "\n" for g in gen]
    from concurrent.futures import ThreadPoolExecutor
    with ThreadPoolExecutor(4) as ex:       # process start-up dominates on a loaded machine
        runs = list(ex.map(lambda gt: mlr_run(ctx, ["--ijson", "--ojson"] + gt[0][0], gt[1].encode(), timeout=120), zip(gen, texts)))
    for (args, recurse, natural, sel, recs), text, (st, out, err) in zip(gen, texts, runs):
        ctx.dist("sort-within-records:" + " ".join(a for a in args[1:] if a.startswith("-")))
        ctx.count(("swr-json", tuple(args), text))
        base = {"argv": ["mlr", "--ijson", "--ojson"] + args, "input": [jdump(r) for r in recs], "observed": out.decode("latin1")[:2000]}
        try:
            got = json.loads(out.decode() or "[]", object_pairs_hook=dict_pairs) if st == 0 else None
        except ValueError:
            got = None
        if got is None or not isinstance(got, list):
            ctx.violation(dict(base, broken="mlr-failed", status=st, stderr=err.decode("latin1")[-500:]))
            continue
        got = [dict_pairs(r) for r in got]
        base["observed"] = [jdump(r) for r in got]
        v = swr_json_oracle(recurse, natural, sel, recs, got)
        if v:
            oracle_bad.append(dict(base, law="sort-within-records: " + v, **{"class": "other"}))
        terms.append("(%d, %s,\n  %s,\n  %s)" % ((1 if recurse else 0) + (2 if natural else 0),
                                                coq_option(sel, lambda l: coq_list([coq_bytes(k.encode()) for k in l])),
                                                coq_list([jrec_term(r) for r in recs]), coq_list([jrec_term(r) for r in got])))
        meta.append(base)
    return terms, meta


def swr_json_oracle_failed(base, oracle_bad):
    return any(v.get("argv") == base["argv"] and v.get("input") == base["input"] for v in oracle_bad)


def map_entries(rec):
    return [[(b"k", k), (b"v", v)] for k, v in rec]


def term(kind, ks, inp, out):
    return "(%d, %s,\n  %s,\n  %s)" % (kind, coq_list(["(%s, %d)" % (coq_bytes(k), c) for k, c in ks]), coq_records(inp), coq_records(out))


def run(ctx):
    ctx.cov["rule"] = ("seeded streams of 0..24 records with 1..3 sort keys drawn from 8 flag kinds (all spellings incl. the split -n -f / -c -r / -t -r forms), "
                       "values: ints, floats, hex, exponent forms, numerically-equal-textually-different (1, 1.0, 0x1, 1e0), empties, mixed-case strings, values with commas, "
                       "integers beyond 2^53 that are exactly representable as doubles and equal-valued floats, natural-order keys (leading zeros, ties between distinct texts, digit/non-digit chunk clashes, "
                       "digit runs above 2^63-1; two-record sorts = the comparator model against the code; full checker on the clean domain, weak adjacent-pair checker elsewhere), "
                       "missing keys, > 12 distinct equal-comparing groups (verb cases with context NR values that are not the arrival index); DSL sort(array | map, flags | user "
                       "comparator whose results are fractions in (-1,1), -1/0/1 or huge magnitudes: a-b, (a-b)/10, (a-b)*1e6, (a<=>b)/4 ...), sort_collection; top -a; sort-within-records. The verified Coq checker is run on the implementation's "
                       "output; a case is non-trivial when (flags, input) is distinct")
    ctx.cov["trusted_base"] = ["Coq 8.16.1 kernel + vm_compute", "no axioms (Print Assumptions: closed under the global context)",
                               "type inference: the C06 model (tied by the C06 check) instantiated with digit tables regenerated from /repo",
                               "github.com/facette/natsort modelled exactly (regexp chunking, strconv.Atoi range error, chunk-count tie break), tied by correspondence (two-record sorts on arbitrary texts)",
                               "implrun verbs driver + python harness"]
    ctx.assumptions = ["strings.ToLower modelled on ASCII", "sort.Slice is not modelled: its output is checked"]
    c06.gen_tables(ctx)
    forbidden_gate(ctx, ["Base", "C11", "C09"])
    ok, why = check_props(ctx, "C09/Props.v", ["C09/Harness.vo", "C09/Proofs.vo", "C09/FloatMono.vo", "C09/Natural.vo", "C09/StableSort.vo", "C09/VerbAny.vo", "C09/Within.vo", "C09/DslFlags.vo"])
    rng = ctx.rng
    nsort = int((700 if ctx.tier == "quick" else 20000) * SCALE)
    ngroups = int((60 if ctx.tier == "quick" else 1000) * SCALE)
    nnat = int((160 if ctx.tier == "quick" else 5000) * SCALE)
    ndsl = int((150 if ctx.tier == "quick" else 4000) * SCALE)
    nswr = int((80 if ctx.tier == "quick" else 2000) * SCALE)
    cases = []
    for _ in range(nsort):
        ks, args, recs = gen_sort_case(rng, 12 if ctx.tier == "quick" else 24)
        cases.append(("sort", ks, args, recs))
        ctx.dist("sort:keys=%d" % len(ks))
        for _, c in ks:
            ctx.dist("flag:" + FLAGS[c])
    for _ in range(ngroups):
        ks, args, recs = gen_many_groups(rng)
        cases.append(("groups", ks, args, recs))
        ctx.dist("sort:>12-equal-groups")
    for _ in range(nnat):
        kind, ks, args, recs = gen_natural_case(rng)
        cases.append((kind, ks, args, recs))
        ctx.dist("sort-natural:" + kind)
    for _ in range(ndsl):
        ks, args, recs = gen_dsl_case(rng)
        cases.append(("dsl", ks, args, recs))
        ctx.dist("dsl-sort")
    for _ in range(ndsl):
        ks, args, recs = gen_map_case(rng)
        cases.append(("map", ks, args, recs))
        ctx.dist("dsl-sort-map")
    for _ in range(ndsl):
        ks, args, recs = gen_top_case(rng)
        cases.append(("top", ks, args, recs))
        ctx.dist("top -a")
    for _ in range(nswr):
        recs = c11.gen_stream(rng, 6)
        cases.append(("swr", [], ["sort-within-records"], recs))
        ctx.dist("sort-within-records")
    with ctx.timed("impl"):
        # verbs (not the DSL programs, which index by NR themselves) also get records whose context NR is not the arrival index
        obs = c11.run_verbs(ctx, [(c[2], c[3], c11.gen_nrs(rng, len(c[3])) if c[0] in ("sort", "groups", "top", "swr", "nat", "natpair", "natweak") else None) for c in cases])
    terms, meta, oracle_bad, stable_terms, stable_meta = [], [], [], [], []
    for (kind, ks, args, inp), (st, out, err) in zip(cases, obs):
        ctx.count((kind, args, inp))
        base = {"argv": ["mlr"] + c11.IOFLAGS + args, "input": c11.show(inp), "observed": c11.show(out),
                "case": {"kind": kind, "ks": [[k.decode("latin1"), c] for k, c in ks]}}
        if st != 0:
            ctx.violation(dict(base, broken="mlr-failed", status=st, stderr=err.decode("latin1")[-500:]))
            continue
        if kind == "swr":
            terms.append(term(2, [], inp, out)); meta.append((kind, ks, args, inp, out))
            want = [sorted(r) for r in inp]
            if out != want:
                oracle_bad.append(dict(base, law="sort-within-records: fields in ascending key order", expected=c11.show(want), **{"class": "other"}))
            continue
        if kind == "top":
            terms.append(term(4, ks, inp, out)); meta.append((kind, ks, args, inp, out))
            tv = top_oracle(ks, inp, out)
            if tv:
                oracle_bad.append(dict(base, law="top -a: " + tv, **{"class": "grouping-key-comma-collision" if c11.has_collision([f for f, _ in ks[2:]], inp) else "other"}))
            continue
        if kind == "map":
            if len(out) != 1:
                oracle_bad.append(dict(base, law="sort of a map returns one map", **{"class": "other"}))
                continue
            inp, out = map_entries(inp[0]), map_entries(out[0])
        if kind == "natweak":
            # the callback is not a strict weak order on these inputs: the weak verified checker must accept; what the documented
            # natural order demands beyond that is reported under the recorded finding classes
            terms.append(term(5, ks, inp, out)); meta.append((kind, ks, args, inp, out))
            v = oracle(ks, inp, out) or ((lambda sv: sv and ("the sort is stable: groups that compare equal keep their first-appearance order", sv))(stable_oracle(ks, inp, out)))
            if v:
                cls = natural_class(ks, inp) if v[0] in ("ordered by the keys in precedence order", "the sort is stable: groups that compare equal keep their first-appearance order") else "other"
                oracle_bad.append(dict(base, law=v[0] + " (documented natural order)", pair=v[1], **{"class": cls}))
            continue
        ngroups_ = len({tuple(dict(r).get(k) for k, _ in ks) for r in inp if all(k in dict(r) for k, _ in ks)})
        # at most 20 groups: sort.SliceStable is insertion sort, the verb model predicts the output exactly (kind 6)
        # the generated values lie in the domain of C09_sort_with_any_stable_sort (exactly representable integers, no digit run
        # above 2^63-1): the stable sorted arrangement is unique, so the insertion-sort model predicts the output for ANY number of groups
        terms.append(term(3 if kind in ("dsl", "map") else 6, ks, inp, out)); meta.append((kind, ks, args, inp, out))
        if kind == "natpair":
            if sorted(map(tuple, out)) != sorted(map(tuple, inp)):
                oracle_bad.append(dict(base, law="output is a permutation of the input, records unchanged", **{"class": "other"}))
            elif oracle(ks, inp, out):
                oracle_bad.append(dict(base, law="ordered by the keys in precedence order (documented natural order)", **{"class": natural_class(ks, inp)}))
            continue
        v = oracle(ks, inp, out, verb=kind not in ("dsl", "map"))
        if v:
            cls = "other"
            if c11.has_collision([k for k, _ in ks], inp):
                cls = "grouping-key-comma-collision"
            elif kind not in ("dsl", "map") and oracle(ks, inp, out, fold_numbers=False) is None:
                cls = "sort-c-does-not-fold-number-like-text"
            oracle_bad.append(dict(base, law=v[0], pair=v[1], **{"class": cls}))
        if kind in ("sort", "groups", "nat") and not v:
            sv = stable_oracle(ks, inp, out)
            if sv:
                # repaired in /repo (4e85fa106, sort.SliceStable): a recurrence is a plain violation
                oracle_bad.append(dict(base, law="the sort is stable: groups that compare equal keep their first-appearance order", pair=sv,
                                       **{"class": "sort-not-stable-for-equal-comparing-groups"}))
    for i in (0, 5, 700, 800):
        if i < len(meta):
            ctx.sample({"argv": meta[i][2], "input": c11.show(meta[i][3]), "observed": c11.show(meta[i][4])})
    with ctx.timed("impl_swr_json"):
        jterms, jmeta = run_swr_json(ctx, rng, int((120 if ctx.tier == "quick" else 3000) * SCALE), oracle_bad)
    fixed_probes(ctx, oracle_bad)
    if not ok:
        if oracle_bad:
            ctx.violation(dict(oracle_bad[0], broken=why))
        else:
            ctx.violation({"broken": why}, found_input=False)
        return
    with ctx.timed("coq_cases"):
        bad, err = coq_eval_mismatches(ctx, "C09", "Base.Record C09.Model C09.Harness", "case", "chk", terms, shard=len(terms) // PAR + 1)
        sbad, serr = coq_eval_mismatches(ctx, "C09j", "Base.Record C09.Model C09.WithinModel C09.Harness", "jcase", "chk_j", jterms, shard=len(jterms) + 1)
    ctx.cov["correspondence"] = {"cases": len(terms), "rejected_by_verified_checker": len(bad), 
                                 "rejected_examples": [{"argv": meta[i][2], "input": c11.show(meta[i][3]), "observed": c11.show(meta[i][4])} for i in bad[:4] if i >= 0]}
    if err or serr:
        ctx.violation({"broken": "correspondence-evaluation", "detail": (err + serr)[-2000:]}, found_input=False)
        return
    for i in sbad[:5]:
        if i >= 0 and not swr_json_oracle_failed(jmeta[i], oracle_bad):
            ctx.violation(dict(jmeta[i], broken="C09.Harness.chk_j: mlr's sort-within-records output differs from the model swr_model (python oracle accepts it)"), found_input=False)
    reported = 0
    for i in bad[:60]:
        kind, ks, args, inp, out = meta[i]
        base = {"argv": ["mlr"] + c11.IOFLAGS + args, "input": c11.show(inp), "observed": c11.show(out)}
        if kind in ("natweak", "natpair"):
            # nothing excuses a rejection by the weak checker, nor by the full checker on two records (one callback result decides)
            reported += 1 if ctx.violation(dict(base, broken="C09.Harness.chk (%s): mlr's output is not adjacent-pair ordered under the modelled natural comparator / not a grouped permutation" % kind,
                                                **{"class": "other"})) else 0
            continue
        v = (top_oracle(ks, inp, out) if kind == "top" else (oracle(ks, inp, out, verb=kind not in ("dsl", "map")) or (kind in ("sort", "groups", "nat") and stable_oracle(ks, inp, out)))) if kind != "swr" else None
        if v:
            continue        # reported below with its class
        reported += 1 if ctx.violation(dict(base, broken="C09.Harness.chk: the verified checker rejects mlr's output (python oracle accepts it)"), found_input=False) else 0
        if reported >= 3:
            break
    oracle_bad.sort(key=lambda v: len(v.get("input", [])))       # smallest witness of each class first
    seen = {}
    for v in oracle_bad:
        key = (v.get("class"), v.get("law") if v.get("class") == "other" else "")
        seen[key] = seen.get(key, 0) + 1
        if seen[key] > (1 if v.get("class") != "other" else 3):
            continue
        ctx.violation(v)
    ctx.cov["oracle_findings"] = {"%s | %s" % k: n for k, n in seen.items()}


def fixed_probes(ctx, oracle_bad):
    """flag spellings select the documented comparator and direction (natural pair included)"""
    recs = [[(b"t", v)] for v in (b"a10", b"a2", b"a1", b"", b"a20")]
    asc = [b"", b"a1", b"a2", b"a10", b"a20"]
    for args, want in ((["sort", "-t", "t"], asc), (["sort", "-tr", "t"], asc[::-1]), (["sort", "-rt", "t"], asc[::-1]), (["sort", "-t", "-r", "t"], asc[::-1])):
        st, out, err = c11.run_verbs(ctx, [(args, recs)])[0]
        ctx.count(("natural-direction", args))
        got = [dict(r).get(b"t") for r in out]
        if st != 0 or got != want:
            oracle_bad.append({"argv": ["mlr"] + c11.IOFLAGS + args, "input": c11.show(recs), "observed": c11.show(out), "expected": ["t:" + x.decode() for x in want],
                               "law": "natural sort direction of the flag", "class": "other"})
    # numeric collation: numbers by value, then empties, then strings; reversed by -nr
    recs = [[(b"x", v)] for v in (b"abc", b"", b"10", b"0x9", b"-1.5", b"Abc")]
    want = [b"-1.5", b"0x9", b"10", b"", b"Abc", b"abc"]
    for args, w in ((["sort", "-nf", "x"], want), (["sort", "-n", "x"], want), (["sort", "-nr", "x"], want[::-1])):
        st, out, err = c11.run_verbs(ctx, [(args, recs)])[0]
        ctx.count(("numeric-collation", args))
        got = [dict(r).get(b"x") for r in out]
        if st != 0 or got != w:
            oracle_bad.append({"argv": ["mlr"] + c11.IOFLAGS + args, "input": c11.show(recs), "observed": c11.show(out), "expected": ["x:" + x.decode() for x in w],
                               "law": "numeric order: numbers by value before empties and strings (reversed for -nr)", "class": "other"})
    # fixed witnesses of the recorded finding classes (reported under their class while they reproduce)
    def probe(args, lines, want, law, cls):
        recs = [[tuple(f.encode().split(b":", 1)) for f in ln.split(";")] for ln in lines]
        st, out, err = c11.run_verbs(ctx, [(args, recs)])[0]
        ctx.count(("finding-probe", args, lines))
        if st != 0 or c11.show(out) != want:
            oracle_bad.append({"argv": ["mlr"] + c11.IOFLAGS + args, "input": lines, "observed": c11.show(out), "expected": want, "law": law, "class": cls})
    probe(["sort", "-nf", "x"], ["x:0x1;i:0", "x:10;i:1", "x:3;i:2", "x:1.0;i:3", "x:1e0;i:4", "x:12;i:5", "x:5;i:6", "x:11;i:7", "x:1;i:8", "x:8;i:9", "x:4;i:10", "x:2.0;i:11", "x:2;i:12"],
          ["x:0x1;i:0", "x:1.0;i:3", "x:1e0;i:4", "x:1;i:8", "x:2.0;i:11", "x:2;i:12", "x:3;i:2", "x:4;i:10", "x:5;i:6", "x:8;i:9", "x:10;i:1", "x:11;i:7", "x:12;i:5"],
          "the sort is stable: groups that compare equal keep their first-appearance order", "sort-not-stable-for-equal-comparing-groups")
    probe(["sort", "-c", "y"], ["y:1E2", "y:1e0"], ["y:1e0", "y:1E2"], "ordered by the keys in precedence order (case-folded)", "sort-c-does-not-fold-number-like-text")
    probe(["sort", "-f", "a", "-f", "b"], ["a:x,y;b:z;i:0", "a:x;b:zz;i:1", "a:x;b:y,z;i:2"], ["a:x;b:y,z;i:2", "a:x;b:zz;i:1", "a:x,y;b:z;i:0"],
          "ordered by the keys in precedence order", "grouping-key-comma-collision")
    # natural order: the two recorded finding classes (while they reproduce), each with its 3-record witness
    probe(["sort", "-t", "a"], ["a:9", "a:100000000000000000000", "a:10"], ["a:9", "a:10", "a:100000000000000000000"],
          "ordered by the keys in precedence order (natural: digit runs by value)", "natural-digit-run-above-int64-compared-bytewise")
    probe(["sort", "-t", "a", "-f", "b"], ["a:1;b:z", "a:01;b:z", "a:1;b:y"], ["a:1;b:y", "a:1;b:z", "a:01;b:z"],
          "ordered by the keys in precedence order (records with the same first key are ordered by the second)", "natural-ties-hide-later-keys")
    # observation (not a finding: 2^53+1 is not exactly representable, outside the property's domain): the witness of
    # C09_numeric_total_preorder_all_int64_refuted makes sort -nf order-dependent on the real binary
    wit = [[(b"x", v)] for v in (b"9007199254740993", b"9007199254740992.0", b"9007199254740992")]
    st, out, err = c11.run_verbs(ctx, [(["sort", "-nf", "x"], wit)])[0]
    ctx.count(("numeric-witness-beyond-2^53",))
    ctx.cov.setdefault("observations", {})["sort -nf on 2^53+1, 2^53.0, 2^53 (input order)"] = c11.show(out)
    # user comparators returning fractions / large magnitudes (contract: any negative, zero or positive number)
    for pi, (body, vals, want) in enumerate((("a - b", ["0.5", "0.25", "0.9", "0.1", "0.75", "0.3"], ["0.1", "0.25", "0.3", "0.5", "0.75", "0.9"]),
                             ("b - a", ["0.5", "0.25", "0.9", "0.1", "0.75", "0.3"], ["0.9", "0.75", "0.5", "0.3", "0.25", "0.1"]),
                             ("a - b", ["3.5", "2", "7", "2.25", "1.5", "3"], ["1.5", "2", "2.25", "3", "3.5", "7"]),
                             ("(a - b) / 10", ["5", "2", "7", "1", "6", "3", "4"], ["1", "2", "3", "4", "5", "6", "7"]),
                             ("(a - b) * 1000000000", ["5", "2", "7", "1"], ["1", "2", "5", "7"]))):
        fn = "pf%d" % pi
        probe(["put", "-q", 'func %s(a, b) { return %s } @a[NR] = $v; end { for (e in sort(get_values(@a), %s)) { emit1 {"v": e} } }' % (fn, body, fn)],
              ["v:" + x for x in vals], ["v:" + x for x in want], "sort(array, function): ordered by the sign of the comparator's result (any magnitude)", "other")
    probe(["put", "func pmv(ak, av, bk, bv) { return bv - av } $* = sort($*, pmv)"], ["a:0.5;b:0.25;c:0.9;d:0.1"], ["c:0.9;a:0.5;b:0.25;d:0.1"],
          "sort(map, function): ordered by the sign of the comparator's result (any magnitude)", "other")
    # DSL sort of a map by its keys under the default (numeric) collation
    for keys in ([b"1a", b"9", b"10"], [b"10", b"9", b"1a"], [b"b", b"2", b"10", b"a"]):
        rec = [[(k, b"v") for k in keys]]
        st, out, err = c11.run_verbs(ctx, [(["put", "$* = sort($*)"], rec)])[0]
        ctx.count(("dsl-map-keys", keys))
        got = [k for k, _ in out[0]] if out else None
        nums = sorted([k for k in keys if k.isdigit()], key=int)
        want = nums + sorted(k for k in keys if not k.isdigit())
        if st != 0 or got != want:
            oracle_bad.append({"argv": ["mlr"] + c11.IOFLAGS + ["put", "$* = sort($*)"], "input": c11.show(rec), "observed": c11.show(out), "expected": [";".join(x.decode() + ":v" for x in want)],
                               "law": "DSL sort of map keys obeys the same collation: numbers by value before strings",
                               "class": "dsl-sort-map-keys-number-vs-string-compared-lexically"})


def replay(ctx, path):
    obj = json.loads(Path(path).read_text())
    argv = obj.get("argv")
    if not argv or argv[0] != "mlr":
        print("replay: nothing to re-run for", obj.get("broken") or obj.get("law"))
        ctx.violation(dict(obj, replayed=True), found_input=obj.get("found_input", False))
        return
    inp = [[tuple(x.encode("latin1") for x in f.split(":", 1)) for f in line.split(";")] if line else [] for line in obj["input"]]
    st, out, err = mlr_run(ctx, argv[1:], c11.enc(inp), timeout=30)
    got = c11.show(c11.dec(out))
    print("replay: argv=%s\n input=%s\n observed=%s\n previously=%s" % (argv, obj["input"], got, obj.get("observed")))
    ctx.count(("replay", argv, obj["input"]))
    if st != 0:
        ctx.violation(dict(obj, replayed=True, status=st))
    elif "case" in obj and obj["case"]["kind"] in ("sort", "groups"):
        ks = [(k.encode("latin1"), c) for k, c in obj["case"]["ks"]]
        o = c11.dec(out)
        v = oracle(ks, inp, o)
        sv = stable_oracle(ks, inp, o)
        if v or (sv and obj.get("class", "").startswith("sort-not-stable")):
            ctx.violation(dict(obj, replayed=True, observed=got, law=(v[0] if v else obj.get("law"))))
    elif "expected" in obj:
        if got != obj["expected"]:
            ctx.violation(dict(obj, replayed=True, observed=got))
    elif got == obj.get("observed"):
        ctx.violation(dict(obj, replayed=True))
