//go:build verif

package cst

// Add-only export for the C18 built-in-function matrix (verification tag only).
// Nothing here changes behaviour: it exposes the REAL lookup table rows and lets the
// driver invoke each row exactly as the corresponding callsite node's Evaluate does.

import (
	"fmt"

	"github.com/johnkerl/miller/v6/pkg/cli"
	"github.com/johnkerl/miller/v6/pkg/mlrval"
	"github.com/johnkerl/miller/v6/pkg/runtime"
	"github.com/johnkerl/miller/v6/pkg/types"
)

// VerifBIF is one row of the built-in function lookup table.
type VerifBIF struct {
	Name               string
	Class              string
	HasMultipleArities bool
	MinVariadic        int
	MaxVariadic        int // 0 = none
	info               *BuiltinFunctionInfo
}

// VerifBuiltinTable returns every row of BuiltinFunctionManagerInstance's table, in table order.
func VerifBuiltinTable() []VerifBIF {
	out := []VerifBIF{}
	for i := range *BuiltinFunctionManagerInstance.lookupTable {
		info := &(*BuiltinFunctionManagerInstance.lookupTable)[i]
		out = append(out, VerifBIF{
			Name:               info.name,
			Class:              string(info.class),
			HasMultipleArities: info.hasMultipleArities,
			MinVariadic:        info.minimumVariadicArity,
			MaxVariadic:        info.maximumVariadicArity,
			info:               info,
		})
	}
	return out
}

// Arities lists the call arities (0..maxArity) this row accepts at CST-build time
// (mirrors BuildBuiltinFunctionCallsiteNode / BuildMultipleArityFunctionCallsiteNode).
func (b *VerifBIF) Arities(maxArity int) []int {
	info := b.info
	has := map[int]bool{}
	if info.hasMultipleArities {
		if info.unaryFunc != nil {
			has[1] = true
		}
		if info.binaryFunc != nil {
			has[2] = true
		}
		if info.ternaryFunc != nil {
			has[3] = true
		}
	} else if info.zaryFuncWithState != nil || info.zaryFunc != nil {
		has[0] = true
	} else if info.unaryFunc != nil || info.unaryFuncWithContext != nil {
		has[1] = true
	} else if info.binaryFunc != nil || info.binaryFuncWithState != nil || info.regexCaptureBinaryFunc != nil {
		has[2] = true
	} else if info.ternaryFunc != nil || info.ternaryFuncWithState != nil {
		has[3] = true
	} else if info.variadicFunc != nil || info.variadicFuncWithState != nil {
		for n := info.minimumVariadicArity; n <= maxArity; n++ {
			if info.maximumVariadicArity == 0 || n <= info.maximumVariadicArity {
				has[n] = true
			}
		}
	}
	out := []int{}
	for n := 0; n <= maxArity; n++ {
		if has[n] {
			out = append(out, n)
		}
	}
	return out
}

// Dispatch says which table slot is used for the given arity (for the evidence).
func (b *VerifBIF) Dispatch(arity int) string {
	info := b.info
	switch {
	case info.hasMultipleArities && arity == 1 && info.unaryFunc != nil:
		return "unary"
	case info.hasMultipleArities && arity == 2 && info.binaryFunc != nil:
		return "binary"
	case info.hasMultipleArities && arity == 3 && info.ternaryFunc != nil:
		return "ternary"
	case info.hasMultipleArities:
		return "none"
	case info.zaryFuncWithState != nil:
		return "zary-state"
	case info.zaryFunc != nil:
		return "zary"
	case info.unaryFunc != nil:
		return "unary"
	case info.unaryFuncWithContext != nil:
		return "unary-context"
	case info.binaryFunc != nil:
		return "binary"
	case info.binaryFuncWithState != nil:
		return "binary-state"
	case info.regexCaptureBinaryFunc != nil:
		return "binary-regex-capture"
	case info.ternaryFunc != nil:
		return "ternary"
	case info.ternaryFuncWithState != nil:
		return "ternary-state"
	case info.variadicFunc != nil:
		return "variadic"
	case info.variadicFuncWithState != nil:
		return "variadic-state"
	}
	return "none"
}

type verifConst struct{ v *mlrval.Mlrval }

func (c *verifConst) Evaluate(state *runtime.State) *mlrval.Mlrval { return c.v }

// VerifEnv holds a runtime state and real UDF values built from DSL text.
type VerifEnv struct {
	State *runtime.State
	root  *RootNode
}

// VerifNewEnv builds a CST from the given DSL text (function definitions) and an empty runtime state.
func VerifNewEnv(dsl string) (*VerifEnv, error) {
	options := cli.DefaultOptions()
	root := NewEmptyRoot(&options.WriterOptions, DSLInstanceTypePut)
	_, err := root.Build([]string{dsl}, DSLInstanceTypePut, false, false, nil)
	if err != nil {
		return nil, err
	}
	state := runtime.NewEmptyState(options, false)
	ctx := types.NewContext()
	state.Update(mlrval.NewMlrmapAsRecord(), ctx)
	return &VerifEnv{State: state, root: root}, nil
}

// Function returns the named UDF as a function-typed Mlrval, as LocalVariableNode.Evaluate does.
func (e *VerifEnv) Function(name string) *mlrval.Mlrval {
	udf := e.root.udfManager.LookUpDisregardingArity(name)
	if udf == nil {
		panic(fmt.Sprintf("verif: no UDF %s", name))
	}
	return mlrval.FromFunction(udf, name)
}

// Call applies the table row to the arguments the way the callsite node's Evaluate method does
// (including the short-circuit operators and the dot operator, which have their own nodes).
func (b *VerifBIF) Call(e *VerifEnv, args []*mlrval.Mlrval) *mlrval.Mlrval {
	info := b.info
	state := e.State
	n := len(args)
	ev := func(i int) IEvaluable { return &verifConst{args[i]} }
	switch info.name {
	case "&&":
		if n == 2 {
			return BuildLogicalANDOperatorNode(ev(0), ev(1)).Evaluate(state)
		}
	case "||":
		if n == 2 {
			return BuildLogicalOROperatorNode(ev(0), ev(1)).Evaluate(state)
		}
	case "??":
		if n == 2 {
			return BuildAbsentCoalesceOperatorNode(ev(0), ev(1)).Evaluate(state)
		}
	case "???":
		if n == 2 {
			return BuildEmptyCoalesceOperatorNode(ev(0), ev(1)).Evaluate(state)
		}
	case "?:":
		if n == 3 {
			return BuildStandardTernaryOperatorNode(ev(0), ev(1), ev(2)).Evaluate(state)
		}
	case ".":
		if n == 2 {
			node := &DotCallsiteNode{evaluable1: ev(0), evaluable2: ev(1), string2: args[1].String()}
			return node.Evaluate(state)
		}
	}
	switch b.Dispatch(n) {
	case "zary-state":
		return info.zaryFuncWithState(state)
	case "zary":
		return info.zaryFunc()
	case "unary":
		return info.unaryFunc(args[0])
	case "unary-context":
		return info.unaryFuncWithContext(args[0], state.Context)
	case "binary":
		return info.binaryFunc(args[0], args[1])
	case "binary-state":
		return info.binaryFuncWithState(args[0], args[1], state)
	case "binary-regex-capture":
		output, captures := info.regexCaptureBinaryFunc(args[0], args[1])
		state.SetRegexCaptures(captures)
		return output
	case "ternary":
		return info.ternaryFunc(args[0], args[1], args[2])
	case "ternary-state":
		return info.ternaryFuncWithState(args[0], args[1], args[2], state)
	case "variadic":
		return info.variadicFunc(args)
	case "variadic-state":
		return info.variadicFuncWithState(args, state)
	}
	panic("verif: no dispatch for " + info.name)
}
