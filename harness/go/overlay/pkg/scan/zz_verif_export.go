//go:build verif

package scan

// VerifDigitPredicates exposes the four byte predicates (add-only, verif tag).
func VerifDigitPredicates(c byte) (dec, oct, hex, flt bool) {
	return isDecimalDigit(c), isOctalDigit(c), isHexDigit(c), isFloatDigit(c)
}
