//go:build verif

package mlrval

// VerifState exposes the (printrep, printrepValid, mvtype) triple without touching it (add-only, verif tag).
func (mv *Mlrval) VerifState() (printrep string, printrepValid bool, mvtype int) {
	return mv.printrep, mv.printrepValid, int(mv.mvtype)
}
