//go:build verif

package mlrval

import "reflect"

// VerifInferrerTables names, per scan-type code, the inferrer function the two dispatch tables of mlrval_infer.go hold
// (normalInferrerTable, leadingZeroAsIntInferrerTable), and the package-level inferrer each flag setter installs.
// Functions are identified by comparing code pointers with the named functions.  Add-only, verif tag.
func VerifInferrerTables() (normal []string, octalAsInt []string, selectors map[string]string) {
	named := map[uintptr]string{}
	for name, f := range map[string]tInferrer{
		"inferString": inferString, "inferDecimalInt": inferDecimalInt, "inferLeadingZeroDecimalIntAsInt": inferLeadingZeroDecimalIntAsInt,
		"inferOctalInt": inferOctalInt, "inferFromLeadingZeroOctalIntAsInt": inferFromLeadingZeroOctalIntAsInt, "inferHexInt": inferHexInt,
		"inferBinaryInt": inferBinaryInt, "inferMaybeFloat": inferMaybeFloat, "inferNormally": inferNormally,
		"inferWithOctalAsInt": inferWithOctalAsInt, "inferWithIntAsFloat": inferWithIntAsFloat,
	} {
		named[reflect.ValueOf(f).Pointer()] = name
	}
	nameOf := func(f tInferrer) string {
		if n, ok := named[reflect.ValueOf(f).Pointer()]; ok {
			return n
		}
		return "unknown"
	}
	for _, f := range normalInferrerTable {
		normal = append(normal, nameOf(f))
	}
	for _, f := range leadingZeroAsIntInferrerTable {
		octalAsInt = append(octalAsInt, nameOf(f))
	}
	saved := packageLevelInferrer
	selectors = map[string]string{"default": nameOf(packageLevelInferrer)}
	SetInferrerOctalAsInt()
	selectors["O"] = nameOf(packageLevelInferrer)
	SetInferrerIntAsFloat()
	selectors["A"] = nameOf(packageLevelInferrer)
	SetInferrerStringOnly()
	selectors["S"] = nameOf(packageLevelInferrer)
	packageLevelInferrer = saved
	return
}
