//go:build verif

package mlrval

// VerifNullIntact reports whether the package-level NULL constant still is the JSON null it was at process start
// (finding C14 auto-extend-deepen-converts-null-constant: PutIndexed on a freshly lengthened array slot converted it in place).
// Add-only, verif tag.
func VerifNullIntact() bool {
	return NULL.mvtype == MT_NULL && NULL.printrepValid && NULL.printrep == "null"
}

// VerifResetNull puts the constant back, so that the cases run one after the other inside one driver process stay independent.
func VerifResetNull() {
	*NULL = Mlrval{mvtype: MT_NULL, printrep: "null", printrepValid: true}
}
