//go:build verif

package mlrval

// VerifResetGlobals puts the package-level inferrer (-S/-A/-O) and the --ofmt formatter back to their process-start
// values, so that several independent command lines can be run one after the other inside one process
// (implrun mlr-batch).  Add-only, verif tag.
func VerifResetGlobals() {
	packageLevelInferrer = inferNormally
	floatOutputFormatter = nil
}
