//go:build verif

package cli

// Add-only export of unexported main-flag internals for the C02 check (verif tag).
// Nothing here changes behaviour; it only reads tables and option structs.

import (
	"fmt"
	"reflect"
	"regexp"
	"strings"
	"unsafe"
)

// VerifFlagInfo is one entry of FLAG_TABLE.
type VerifFlagInfo struct {
	Section string
	Name    string
	Alts    []string
	Arg     string
}

// VerifFlagTable lists every flag of FLAG_TABLE in table order, i.e. the order
// FlagTable.Parse searches (sections sorted by init(), flags sorted per section).
func VerifFlagTable() []VerifFlagInfo {
	out := []VerifFlagInfo{}
	for _, section := range FLAG_TABLE.sections {
		for _, flag := range section.flags {
			alts := []string{}
			alts = append(alts, flag.altNames...)
			out = append(out, VerifFlagInfo{Section: section.name, Name: flag.name, Alts: alts, Arg: flag.arg})
		}
	}
	return out
}

func verifCopySS(m map[string]string) map[string]string {
	out := map[string]string{}
	for k, v := range m {
		out[k] = v
	}
	return out
}

func VerifDefaultFSes() map[string]string { return verifCopySS(defaultFSes) }
func VerifDefaultPSes() map[string]string { return verifCopySS(defaultPSes) }
func VerifDefaultRSes() map[string]string { return verifCopySS(defaultRSes) }
func VerifDefaultAllowRepeatIFSes() map[string]bool {
	out := map[string]bool{}
	for k, v := range defaultAllowRepeatIFSes {
		out[k] = v
	}
	return out
}

var verifRegexpPtrType = reflect.TypeOf((*regexp.Regexp)(nil))

// VerifDumpOptions renders every field of *TOptions (recursively: ReaderOptions, WriterOptions,
// GeneratorOptions, and the top-level fields), exported or not, as ordered (dotted-field-name, value)
// pairs in declaration order.  Uses reflection so that fields added later are picked up.
// *regexp.Regexp fields render as their pattern, "" when nil; string slices joined by "\x00".
func VerifDumpOptions(o *TOptions) [][2]string {
	out := [][2]string{}
	verifDumpValue("", reflect.ValueOf(o).Elem(), &out)
	return out
}

func verifDumpValue(prefix string, v reflect.Value, out *[][2]string) {
	t := v.Type()
	for i := 0; i < t.NumField(); i++ {
		f := v.Field(i)
		name := t.Field(i).Name
		if prefix != "" {
			name = prefix + "." + name
		}
		switch {
		case f.Type() == verifRegexpPtrType:
			if f.IsNil() {
				*out = append(*out, [2]string{name, ""})
			} else {
				re := (*regexp.Regexp)(unsafe.Pointer(f.Pointer()))
				*out = append(*out, [2]string{name, re.String()})
			}
		case f.Kind() == reflect.Struct:
			verifDumpValue(name, f, out)
		case f.Kind() == reflect.Bool:
			*out = append(*out, [2]string{name, fmt.Sprintf("%t", f.Bool())})
		case f.Kind() == reflect.String:
			*out = append(*out, [2]string{name, f.String()})
		case f.Kind() >= reflect.Int && f.Kind() <= reflect.Int64:
			*out = append(*out, [2]string{name, fmt.Sprintf("%d", f.Int())})
		case f.Kind() >= reflect.Uint && f.Kind() <= reflect.Uintptr:
			*out = append(*out, [2]string{name, fmt.Sprintf("%d", f.Uint())})
		case f.Kind() == reflect.Float32 || f.Kind() == reflect.Float64:
			*out = append(*out, [2]string{name, fmt.Sprintf("%v", f.Float())})
		case f.Kind() == reflect.Slice && f.Type().Elem().Kind() == reflect.String:
			parts := make([]string, f.Len())
			for j := 0; j < f.Len(); j++ {
				parts[j] = f.Index(j).String()
			}
			*out = append(*out, [2]string{name, fmt.Sprintf("%d:", f.Len()) + strings.Join(parts, "\x00")})
		default:
			// anything else (future field kinds): read through an addressable copy
			var s string
			if f.CanAddr() {
				s = fmt.Sprintf("%v", reflect.NewAt(f.Type(), unsafe.Pointer(f.UnsafeAddr())).Elem().Interface())
			} else {
				s = "<" + f.Kind().String() + ">"
			}
			*out = append(*out, [2]string{name, s})
		}
	}
}

// VerifFlushWasSpecified tells whether WriterOptions.FlushOnEveryRecord was set by a flag
// (otherwise FinalizeWriterOptions sets it from isatty(stdout), which depends on the environment).
func VerifFlushWasSpecified(o *TOptions) bool {
	return o.WriterOptions.flushOnEveryRecordWasSpecified
}
