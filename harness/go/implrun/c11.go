package main

// verbs: runs one Miller verb in-process on a list of records, one request per line (used by C09 and C11).
//
//	request : {"seed":7,"args":["head","-n","1","-g","a"],"recs":[[["a","1"],["b","x"]], ...],"nrs":[3,1,1,9]}   (nrs optional)
//	response: {"ok":true,"out":[[["a","1"],["b","x"]], ...]}   or   {"ok":false,"err":"..."}  /  {"ok":false,"panic":"..."}
//
// The verb is built by the real ParseCLIFunc from the transformer lookup table, records are built like the DKVP
// reader does (values of deferred/inferred type), and fed one by one through Transform followed by the
// end-of-stream marker, with the cap-1 downstream-done channels ChainTransformer uses.
import (
	"bufio"
	"encoding/json"
	"fmt"

	"github.com/johnkerl/miller/v6/pkg/cli"
	"github.com/johnkerl/miller/v6/pkg/lib"
	"github.com/johnkerl/miller/v6/pkg/mlrval"
	"github.com/johnkerl/miller/v6/pkg/transformers"
	"github.com/johnkerl/miller/v6/pkg/types"
)

func init() {
	subcommands["verbs"] = cmdVerbs
}

type verbReq struct {
	Seed int64         `json:"seed"`
	Args []string      `json:"args"`
	Recs [][][2]string `json:"recs"`
	// optional: the context NR (= FNR) each record carries, as after upstream verbs that drop, reorder or repeat
	// records; default: the arrival index 1, 2, 3, ...
	Nrs []int64 `json:"nrs"`
}

type verbResp struct {
	Ok    bool          `json:"ok"`
	Err   string        `json:"err,omitempty"`
	Panic string        `json:"panic,omitempty"`
	Out   [][][2]string `json:"out"`
}

func runVerb(req *verbReq) (resp verbResp) {
	defer func() {
		if r := recover(); r != nil {
			resp = verbResp{Ok: false, Panic: fmt.Sprint(r)}
		}
	}()
	if len(req.Args) == 0 {
		return verbResp{Ok: false, Err: "no verb"}
	}
	setup := transformers.LookUp(req.Args[0])
	if setup == nil {
		return verbResp{Ok: false, Err: "verb not found"}
	}
	lib.SeedRandom(req.Seed)
	options := cli.DefaultOptions()
	argi := 0
	// as climain does before any verb sees its arguments: "-xyz" -> "-x -y -z"
	req.Args = lib.Getoptify(req.Args)
	tr, err := setup.ParseCLIFunc(&argi, len(req.Args), req.Args, options, true)
	if err != nil {
		return verbResp{Ok: false, Err: "parse: " + err.Error()}
	}
	if tr == nil {
		return verbResp{Ok: false, Err: "parse: no transformer"}
	}
	if argi != len(req.Args) {
		return verbResp{Ok: false, Err: fmt.Sprintf("parse: stopped at argument %d", argi)}
	}
	idone := make(chan bool, 1)
	odone := make(chan bool, 1)
	context := types.NewContext()
	context.UpdateForStartOfFile("(stdin)")
	outs := make([]*types.RecordAndContext, 0, len(req.Recs))
	for i, r := range req.Recs {
		rec := mlrval.NewMlrmapAsRecord()
		for _, kv := range r {
			rec.PutReference(kv[0], mlrval.FromDeferredType(kv[1]))
		}
		if i < len(req.Nrs) {
			context.NR = req.Nrs[i]
			context.FNR = req.Nrs[i]
		} else {
			context.UpdateForInputRecord()
		}
		if err := tr.Transform(types.NewRecordAndContext(rec, context), &outs, idone, odone); err != nil {
			return verbResp{Ok: false, Err: err.Error()}
		}
	}
	if err := tr.Transform(types.NewEndOfStreamMarker(context), &outs, idone, odone); err != nil {
		return verbResp{Ok: false, Err: err.Error()}
	}
	resp = verbResp{Ok: true, Out: make([][][2]string, 0, len(outs))}
	for _, o := range outs {
		if o.EndOfStream || o.Record == nil {
			continue
		}
		row := make([][2]string, 0, o.Record.FieldCount)
		for pe := o.Record.Head; pe != nil; pe = pe.Next {
			row = append(row, [2]string{pe.Key, pe.Value.String()})
		}
		resp.Out = append(resp.Out, row)
	}
	return resp
}

func cmdVerbs(args []string, in *bufio.Scanner, out *bufio.Writer) {
	for in.Scan() {
		var req verbReq
		if err := json.Unmarshal(in.Bytes(), &req); err != nil {
			fmt.Fprintln(out, `{"ok":false,"err":"bad request"}`)
			continue
		}
		resp := runVerb(&req)
		b, _ := json.Marshal(resp)
		out.Write(b)
		out.WriteByte('\n')
	}
}
