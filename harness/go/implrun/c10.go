package main

// C10 driver: runs a verb (constructed by its own ParseCLI function from the same argv text the command line
// would carry) over a record stream, in-process, many cases per invocation.
// Request (one JSON object per line): {"args":["stats1","-a","sum","-f","x"],"records":[[["k","v"],...],...]}
// Response: {"records":[[["k","v"],...],...]} | {"error":"..."} | {"panic":"..."}
// Field values enter as type-deferred Mlrvals (exactly what the file readers produce) and leave as their String().

import (
	"bufio"
	"encoding/json"
	"fmt"

	"github.com/johnkerl/miller/v6/pkg/cli"
	"github.com/johnkerl/miller/v6/pkg/mlrval"
	"github.com/johnkerl/miller/v6/pkg/transformers"
	"github.com/johnkerl/miller/v6/pkg/types"
)

func init() {
	subcommands["c10-verb"] = cmdC10Verb
}

type c10Request struct {
	Args    []string     `json:"args"`
	Records [][][]string `json:"records"`
}

type c10Response struct {
	Records [][][]string `json:"records,omitempty"`
	Error   string       `json:"error,omitempty"`
	Panic   string       `json:"panic,omitempty"`
}

func c10RunOne(req *c10Request) (resp c10Response) {
	defer func() {
		if r := recover(); r != nil {
			resp = c10Response{Panic: fmt.Sprint(r)}
		}
	}()
	if len(req.Args) == 0 {
		return c10Response{Error: "no verb"}
	}
	setup := transformers.LookUp(req.Args[0])
	if setup == nil {
		return c10Response{Error: "verb not found"}
	}
	argi := 0
	options := cli.DefaultOptions()
	tr, err := setup.ParseCLIFunc(&argi, len(req.Args), req.Args, options, true)
	if err != nil {
		return c10Response{Error: err.Error()}
	}
	if tr == nil || argi != len(req.Args) {
		return c10Response{Error: "verb arguments not fully consumed"}
	}
	context := types.NewContext()
	inDone := make(chan bool, 1)
	outDone := make(chan bool, 1)
	outs := []*types.RecordAndContext{}
	for _, rec := range req.Records {
		m := mlrval.NewMlrmapAsRecord()
		for _, kv := range rec {
			m.PutReference(kv[0], mlrval.FromDeferredType(kv[1]))
		}
		context.UpdateForInputRecord()
		if err := tr.Transform(types.NewRecordAndContext(m, context), &outs, inDone, outDone); err != nil {
			return c10Response{Error: err.Error()}
		}
	}
	if err := tr.Transform(types.NewEndOfStreamMarker(context), &outs, inDone, outDone); err != nil {
		return c10Response{Error: err.Error()}
	}
	resp.Records = [][][]string{}
	for _, o := range outs {
		if o == nil || o.EndOfStream || o.Record == nil {
			continue
		}
		row := [][]string{}
		for pe := o.Record.Head; pe != nil; pe = pe.Next {
			row = append(row, []string{pe.Key, pe.Value.String()})
		}
		resp.Records = append(resp.Records, row)
	}
	return resp
}

func cmdC10Verb(args []string, in *bufio.Scanner, out *bufio.Writer) {
	for in.Scan() {
		var req c10Request
		var resp c10Response
		if err := json.Unmarshal(in.Bytes(), &req); err != nil {
			resp = c10Response{Error: "bad request: " + err.Error()}
		} else {
			resp = c10RunOne(&req)
		}
		b, _ := json.Marshal(resp)
		out.Write(b)
		out.WriteByte('\n')
	}
}
