package main

import (
	"bufio"
	"fmt"
	"time"
)

func init() {
	subcommands["zones"] = cmdZones
}

// zones <fromYear> <toYear> name...: for each zone, the offset in force at the start of the window and every
// transition (instant, new offset) inside it, found by walking Time.ZoneBounds of the resolved tzdata.
// Output: "zone <name> <baseOffset>" then "t <unix> <offset>" lines, then "end".
func cmdZones(args []string, in *bufio.Scanner, out *bufio.Writer) {
	var y0, y1 int
	fmt.Sscanf(args[0], "%d", &y0)
	fmt.Sscanf(args[1], "%d", &y1)
	for _, name := range args[2:] {
		loc, err := time.LoadLocation(name)
		if err != nil {
			fmt.Fprintf(out, "error %s %v\n", name, err)
			continue
		}
		t := time.Date(y0, 1, 1, 0, 0, 0, 0, time.UTC).In(loc)
		tEnd := time.Date(y1, 1, 1, 0, 0, 0, 0, time.UTC)
		_, off := t.Zone()
		fmt.Fprintf(out, "zone %s %d\n", name, off)
		for i := 0; i < 100000; i++ {
			_, end := t.ZoneBounds()
			if end.IsZero() || !end.Before(tEnd) {
				break
			}
			_, off = end.Zone()
			fmt.Fprintf(out, "t %d %d\n", end.Unix(), off)
			t = end
		}
		fmt.Fprintln(out, "end")
	}
}
