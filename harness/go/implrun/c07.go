package main

// implrun bif: apply a named arithmetic/bit/math BIF to typed arguments.
// Request line:  <name> <arg> [<arg> [<arg>]]   with <arg> = i<decimal int64> | f<16 hex digits of the IEEE bit pattern>
// Response line: int <decimal> | float <16 hex digits> | error | absent | void | <other type name> | PANIC <message>
// A panic inside the BIF is caught (recover) so that a whole operand grid runs in one process.

import (
	"bufio"
	"fmt"
	"math"
	"strconv"
	"strings"

	"github.com/johnkerl/miller/v6/pkg/bifs"
	"github.com/johnkerl/miller/v6/pkg/mlrval"
)

func init() {
	subcommands["bif"] = cmdBif
}

var c07Unary = map[string]func(*mlrval.Mlrval) *mlrval.Mlrval{
	"neg":      bifs.BIF_minus_unary,
	"pos":      bifs.BIF_plus_unary,
	"~":        bifs.BIF_bitwise_not,
	"bitcount": bifs.BIF_bitcount,
	"abs":      bifs.BIF_abs,
	"ceil":  bifs.BIF_ceil,
	"floor":    bifs.BIF_floor,
	"round":    bifs.BIF_round,
	"sgn":      bifs.BIF_sgn,
}

var c07Binary = map[string]func(a, b *mlrval.Mlrval) *mlrval.Mlrval{
	"+":      bifs.BIF_plus_binary,
	"-":      bifs.BIF_minus_binary,
	"*":      bifs.BIF_times,
	"/":      bifs.BIF_divide,
	"//":     bifs.BIF_int_divide,
	"%":      bifs.BIF_modulus,
	"**":     bifs.BIF_pow,
	".+":     bifs.BIF_dot_plus,
	".-":     bifs.BIF_dot_minus,
	".*":     bifs.BIF_dot_times,
	"./":     bifs.BIF_dot_divide,
	"&":      bifs.BIF_bitwise_and,
	"|":      bifs.BIF_bitwise_or,
	"^":      bifs.BIF_bitwise_xor,
	"<<":     bifs.BIF_left_shift,
	">>":     bifs.BIF_signed_right_shift,
	">>>":    bifs.BIF_unsigned_right_shift,
	"roundm": bifs.BIF_roundm,
	"min": func(a, b *mlrval.Mlrval) *mlrval.Mlrval {
		return bifs.BIF_min_variadic([]*mlrval.Mlrval{a, b})
	},
	"max": func(a, b *mlrval.Mlrval) *mlrval.Mlrval {
		return bifs.BIF_max_variadic([]*mlrval.Mlrval{a, b})
	},
}

var c07Ternary = map[string]func(a, b, c *mlrval.Mlrval) *mlrval.Mlrval{
	"madd": bifs.BIF_mod_add,
	"msub": bifs.BIF_mod_sub,
	"mmul": bifs.BIF_mod_mul,
	"mexp": bifs.BIF_mod_exp,
}

func c07ParseArg(s string) (*mlrval.Mlrval, error) {
	if len(s) < 2 {
		return nil, fmt.Errorf("bad arg %q", s)
	}
	switch s[0] {
	case 'i':
		n, err := strconv.ParseInt(s[1:], 10, 64)
		if err != nil {
			return nil, err
		}
		return mlrval.FromInt(n), nil
	case 'f':
		u, err := strconv.ParseUint(s[1:], 16, 64)
		if err != nil {
			return nil, err
		}
		return mlrval.FromFloat(math.Float64frombits(u)), nil
	}
	return nil, fmt.Errorf("bad arg %q", s)
}

func c07Describe(mv *mlrval.Mlrval) string {
	switch mv.Type() {
	case mlrval.MT_INT:
		n, _ := mv.GetIntValue()
		return fmt.Sprintf("int %d", n)
	case mlrval.MT_FLOAT:
		f, _ := mv.GetFloatValue()
		return fmt.Sprintf("float %016x", math.Float64bits(f))
	case mlrval.MT_VOID:
		return "void"
	default:
		return mv.GetTypeName()
	}
}

func c07Apply(fields []string) (resp string) {
	defer func() {
		if r := recover(); r != nil {
			resp = "PANIC " + strings.ReplaceAll(fmt.Sprint(r), "\n", " ")
		}
	}()
	name := fields[0]
	args := make([]*mlrval.Mlrval, 0, 3)
	for _, a := range fields[1:] {
		mv, err := c07ParseArg(a)
		if err != nil {
			return "badarg " + err.Error()
		}
		args = append(args, mv)
	}
	switch len(args) {
	case 1:
		if f, ok := c07Unary[name]; ok {
			return c07Describe(f(args[0]))
		}
	case 2:
		if f, ok := c07Binary[name]; ok {
			return c07Describe(f(args[0], args[1]))
		}
	case 3:
		if f, ok := c07Ternary[name]; ok {
			return c07Describe(f(args[0], args[1], args[2]))
		}
	}
	return "badname " + name
}

func cmdBif(args []string, in *bufio.Scanner, out *bufio.Writer) {
	for in.Scan() {
		line := strings.TrimSpace(in.Text())
		if line == "" {
			fmt.Fprintln(out, "badline")
			continue
		}
		fmt.Fprintln(out, c07Apply(strings.Fields(line)))
	}
}
