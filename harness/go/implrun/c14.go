// C14 drivers.
//
//	c14-put    one JSON case per line {"prog":..., "inputs":[[[k,v],...],...], "quiet":bool}: builds the real
//	           TransformerPut (parser, CST builder, put_or_filter.go) and feeds it the records followed by the
//	           end-of-stream marker, in process (the generated parser's tables make process start-up expensive).
//	           Output, one JSON line per case: {"status":"ok"|"error","err":..., "out":[{"r":[[k,val],...]} | {"s":"line"}]}
//	           where val is the typed Mlrval: {"i":n} {"s":".."} {"b":true} {"m":[[k,val]...]} {"l":[val...]} {"e":1} {"a":1} {"f":"text"} {"o":"typename"}.
//	           A case that makes Miller call os.Exit kills the driver: the caller sees which case has no answer.
//	c14-stack  one JSON op list per line, run on the real runtime.Stack: [["pushframe"],["define","x","int",val],["get","x"],...]
//	           Output: JSON list of observations: "u" | "err" | null | val
package main

import (
	"bufio"
	"encoding/json"
	"fmt"

	"github.com/johnkerl/miller/v6/pkg/cli"
	"github.com/johnkerl/miller/v6/pkg/dsl/cst"
	"github.com/johnkerl/miller/v6/pkg/mlrval"
	"github.com/johnkerl/miller/v6/pkg/runtime"
	"github.com/johnkerl/miller/v6/pkg/transformers"
	"github.com/johnkerl/miller/v6/pkg/types"
)

func init() {
	subcommands["c14-put"] = cmdC14Put
	subcommands["c14-stack"] = cmdC14Stack
}

type c14Case struct {
	Prog   string        `json:"prog"`
	Inputs [][][2]string `json:"inputs"`
	Quiet  bool          `json:"quiet"`
	// a then-chain of put verbs in ONE process (process-wide caches are shared, as in 'mlr put ... then put ...'):
	// when non-empty, Prog/Quiet are ignored; the output stream of each verb is the input of the next
	Chain []c14Verb `json:"chain"`
}

type c14Verb struct {
	Prog  string `json:"prog"`
	Quiet bool   `json:"quiet"`
}

func c14Value(v *mlrval.Mlrval) interface{} {
	switch v.Type() {
	case mlrval.MT_INT:
		n, _ := v.GetIntValue()
		return map[string]interface{}{"i": n}
	case mlrval.MT_STRING, mlrval.MT_VOID:
		return map[string]interface{}{"s": v.String()}
	case mlrval.MT_BOOL:
		b, _ := v.GetBoolValue()
		return map[string]interface{}{"b": b}
	case mlrval.MT_MAP:
		return map[string]interface{}{"m": c14Map(v.GetMap())}
	case mlrval.MT_ARRAY:
		out := []interface{}{}
		for _, e := range v.GetArray() {
			out = append(out, c14Value(e))
		}
		return map[string]interface{}{"l": out}
	case mlrval.MT_ERROR:
		return map[string]interface{}{"e": 1}
	case mlrval.MT_ABSENT:
		return map[string]interface{}{"a": 1}
	case mlrval.MT_FLOAT:
		return map[string]interface{}{"f": v.String()}
	}
	return map[string]interface{}{"o": v.GetTypeName()}
}

func c14Map(m *mlrval.Mlrmap) []interface{} {
	out := []interface{}{}
	if m == nil {
		return out
	}
	for pe := m.Head; pe != nil; pe = pe.Next {
		out = append(out, []interface{}{pe.Key, c14Value(pe.Value)})
	}
	return out
}

func c14RunChain(c *c14Case) map[string]interface{} {
	options := cli.DefaultOptions()
	// all the verbs of a chain are built before the first record flows, as ChainTransformer does
	trs := []*transformers.TransformerPut{}
	for _, v := range c.Chain {
		tr, err := transformers.NewTransformerPut(
			false, []string{v.Prog}, cst.DSLInstanceTypePut, nil,
			false, false, false, false, false, false, false, false, false,
			false, v.Quiet, options)
		if err != nil {
			return map[string]interface{}{"status": "error", "err": "build: " + err.Error(), "out": []interface{}{}}
		}
		trs = append(trs, tr)
	}
	context := types.NewContext()
	context.UpdateForStartOfFile("(stdin)")
	stream := []*types.RecordAndContext{}
	for _, recIn := range c.Inputs {
		rec := mlrval.NewMlrmapAsRecord()
		for _, kv := range recIn {
			rec.PutReference(kv[0], mlrval.FromDeferredType(kv[1]))
		}
		context.UpdateForInputRecord()
		stream = append(stream, types.NewRecordAndContext(rec, context))
	}
	stream = append(stream, types.NewEndOfStreamMarker(context))
	inDone := make(chan bool, 1)
	outDone := make(chan bool, 1)
	for _, tr := range trs {
		outs := []*types.RecordAndContext{}
		for _, item := range stream {
			if item.Record == nil && !item.EndOfStream {
				outs = append(outs, item) // printed text passes through the later verbs
				continue
			}
			if err := tr.Transform(item, &outs, inDone, outDone); err != nil {
				return map[string]interface{}{"status": "error", "err": err.Error(), "out": c14Outs(outs)}
			}
		}
		// exactly one end-of-stream marker, at the end
		next := []*types.RecordAndContext{}
		for _, o := range outs {
			if !o.EndOfStream {
				next = append(next, o)
			}
		}
		stream = append(next, types.NewEndOfStreamMarker(context))
	}
	return map[string]interface{}{"status": "ok", "out": c14Outs(stream)}
}

func c14RunCase(c *c14Case) map[string]interface{} {
	if len(c.Chain) > 0 {
		return c14RunChain(c)
	}
	options := cli.DefaultOptions()
	tr, err := transformers.NewTransformerPut(
		false, []string{c.Prog}, cst.DSLInstanceTypePut, nil,
		false, false, false, false, false, false, false, false, false,
		false, c.Quiet, options)
	if err != nil {
		return map[string]interface{}{"status": "error", "err": "build: " + err.Error(), "out": []interface{}{}}
	}
	context := types.NewContext()
	context.UpdateForStartOfFile("(stdin)")
	outs := []*types.RecordAndContext{}
	inDone := make(chan bool, 1)
	outDone := make(chan bool, 1)
	for _, recIn := range c.Inputs {
		rec := mlrval.NewMlrmapAsRecord()
		for _, kv := range recIn {
			rec.PutReference(kv[0], mlrval.FromDeferredType(kv[1]))
		}
		context.UpdateForInputRecord()
		err := tr.Transform(types.NewRecordAndContext(rec, context), &outs, inDone, outDone)
		if err != nil {
			return map[string]interface{}{"status": "error", "err": err.Error(), "out": c14Outs(outs)}
		}
	}
	err = tr.Transform(types.NewEndOfStreamMarker(context), &outs, inDone, outDone)
	if err != nil {
		return map[string]interface{}{"status": "error", "err": err.Error(), "out": c14Outs(outs)}
	}
	return map[string]interface{}{"status": "ok", "out": c14Outs(outs)}
}

func c14Outs(outs []*types.RecordAndContext) []interface{} {
	res := []interface{}{}
	for _, o := range outs {
		if o.EndOfStream {
			continue
		}
		if o.Record != nil {
			res = append(res, map[string]interface{}{"r": c14Map(o.Record)})
		} else {
			res = append(res, map[string]interface{}{"s": o.OutputString})
		}
	}
	return res
}

func cmdC14Put(args []string, in *bufio.Scanner, out *bufio.Writer) {
	for in.Scan() {
		var c c14Case
		if err := json.Unmarshal(in.Bytes(), &c); err != nil {
			fmt.Fprintln(out, `{"status":"badjson"}`)
			out.Flush()
			continue
		}
		// announce the case first so that a death inside it (os.Exit, panic) is attributable
		fmt.Fprintln(out, `{"begin":1}`)
		out.Flush()
		res := c14RunCase(&c)
		if !mlrval.VerifNullIntact() {
			// the case converted the shared NULL constant in place: say so, and restore it for the next case
			res["null_corrupted"] = true
			mlrval.VerifResetNull()
		}
		b, _ := json.Marshal(res)
		out.Write(b)
		out.WriteString("\n")
		out.Flush()
	}
}

// ---- stack ops
func c14FromJSON(x interface{}) *mlrval.Mlrval {
	m, ok := x.(map[string]interface{})
	if !ok {
		return mlrval.ABSENT
	}
	if v, ok := m["i"]; ok {
		return mlrval.FromInt(int64(v.(float64)))
	}
	if v, ok := m["s"]; ok {
		return mlrval.FromString(v.(string))
	}
	if v, ok := m["b"]; ok {
		return mlrval.FromBool(v.(bool))
	}
	if v, ok := m["m"]; ok {
		mm := mlrval.NewMlrmap()
		for _, kv := range v.([]interface{}) {
			pair := kv.([]interface{})
			mm.PutReference(pair[0].(string), c14FromJSON(pair[1]))
		}
		return mlrval.FromMap(mm)
	}
	if v, ok := m["l"]; ok {
		arr := []*mlrval.Mlrval{}
		for _, e := range v.([]interface{}) {
			arr = append(arr, c14FromJSON(e))
		}
		return mlrval.FromArray(arr)
	}
	if _, ok := m["e"]; ok {
		return mlrval.FromErrorString("e")
	}
	return mlrval.ABSENT
}

func cmdC14Stack(args []string, in *bufio.Scanner, out *bufio.Writer) {
	for in.Scan() {
		var ops [][]interface{}
		if err := json.Unmarshal(in.Bytes(), &ops); err != nil {
			fmt.Fprintln(out, `"badjson"`)
			continue
		}
		stack := runtime.NewStack()
		obs := []interface{}{}
		for _, op := range ops {
			name := op[0].(string)
			switch name {
			case "pushframe":
				stack.PushStackFrame()
				obs = append(obs, "u")
			case "popframe":
				stack.PopStackFrame()
				obs = append(obs, "u")
			case "pushset":
				stack.PushStackFrameSet()
				obs = append(obs, "u")
			case "popset":
				stack.PopStackFrameSet()
				obs = append(obs, "u")
			case "define":
				err := stack.DefineTypedAtScope(runtime.NewStackVariable(op[1].(string)), op[2].(string), c14FromJSON(op[3]))
				if err != nil {
					obs = append(obs, "err")
				} else {
					obs = append(obs, "u")
				}
			case "set":
				err := stack.Set(runtime.NewStackVariable(op[1].(string)), c14FromJSON(op[2]))
				if err != nil {
					obs = append(obs, "err")
				} else {
					obs = append(obs, "u")
				}
			case "setatscope":
				err := stack.SetAtScope(runtime.NewStackVariable(op[1].(string)), c14FromJSON(op[2]))
				if err != nil {
					obs = append(obs, "err")
				} else {
					obs = append(obs, "u")
				}
			case "unset":
				stack.Unset(runtime.NewStackVariable(op[1].(string)))
				obs = append(obs, "u")
			case "get":
				v := stack.Get(runtime.NewStackVariable(op[1].(string)))
				if v == nil {
					obs = append(obs, nil)
				} else {
					obs = append(obs, c14Value(v))
				}
			}
		}
		b, _ := json.Marshal(obs)
		out.Write(b)
		out.WriteString("\n")
	}
}
