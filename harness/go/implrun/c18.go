package main

// C18: exhaustive walk of the REAL built-in function table x argument-kind representatives.
//
//   implrun bif-reps                      -> one line per representative: index name kind dsl-expression
//   implrun bif-list <maxArity>           -> one line per (function, arity) shard: name arity dispatch class
//   implrun bif-worker <reps> <start> <careful> <fidx:arity,...>
//        applies table row fidx to every tuple (lexicographic, from tuple number <start>) under recover();
//        writes ONE byte per completed tuple to stdout (v value, e error value, a absent, P recovered panic);
//        panic messages go to stderr as "PANIC <tuple> <message>".  A watchdog writes 'H' and exits 3 when
//        a call makes no progress for the hang timeout.  os.Exit inside Miller (fatal `mlr:` errors) kills
//        the worker; the parent sees the short count and restarts after the fatal tuple.
//   implrun bif-matrix <maxArity> <jobs> [reps] -> parent: runs all shards, prints per shard
//        "S <name> <arity> <dispatch> <ntuples> <rle>" and per non-value tuple detail lines
//        "D <name> <arity> <tuple> <code> <hex(message)>".

import (
	"bufio"
	"bytes"
	"encoding/hex"
	"fmt"
	"math"
	"os"
	"os/exec"
	"strconv"
	"strings"
	"sync"
	"sync/atomic"
	"syscall"
	"time"

	"github.com/johnkerl/miller/v6/pkg/dsl/cst"
	"github.com/johnkerl/miller/v6/pkg/mlrval"
)

func init() {
	subcommands["bif-reps"] = cmdBifReps
	subcommands["bif-list"] = cmdBifList
	subcommands["bif-worker"] = cmdBifWorker
	subcommands["bif-matrix"] = cmdBifMatrix
}

// Functions never invoked: they act on the operating system.
var c18Skip = map[string]string{
	"system": "runs a shell command",
	"exec":   "runs a program",
}

// Tuples deliberately not evaluated (code 'K'): function -> argument position -> representative names.
// leftpad/rightpad(x, 2^63-1, pad) would build a string of that length (a resource bound of the walk, not a finding).
var c18SkipTuples = map[string]map[int]map[string]bool{
	"leftpad":  {1: {"imax": true}},
	"rightpad": {1: {"imax": true}},
}

const c18UDFs = `
func verif_f1(a) { return true }
func verif_f2(a, b) { return 1 }
`

type c18Rep struct {
	name string
	kind string
	dsl  string // DSL expression producing the same value at CLI level ("" if none)
	mk   func(env *cst.VerifEnv) *mlrval.Mlrval
}

func c18Map(kvs ...interface{}) *mlrval.Mlrval {
	m := mlrval.NewMlrmap()
	for i := 0; i+1 < len(kvs); i += 2 {
		m.PutReference(kvs[i].(string), kvs[i+1].(*mlrval.Mlrval))
	}
	return mlrval.FromMap(m)
}

func c18Arr(vs ...*mlrval.Mlrval) *mlrval.Mlrval {
	return mlrval.FromArray(vs)
}

func c18Reps(which string) []c18Rep {
	I := func(n int64) func(*cst.VerifEnv) *mlrval.Mlrval {
		return func(*cst.VerifEnv) *mlrval.Mlrval { return mlrval.FromInt(n) }
	}
	F := func(f float64) func(*cst.VerifEnv) *mlrval.Mlrval {
		return func(*cst.VerifEnv) *mlrval.Mlrval { return mlrval.FromFloat(f) }
	}
	S := func(s string) func(*cst.VerifEnv) *mlrval.Mlrval {
		return func(*cst.VerifEnv) *mlrval.Mlrval { return mlrval.FromString(s) }
	}
	all := []c18Rep{
		{"i0", "int", "0", I(0)},
		{"i1", "int", "1", I(1)},
		{"im1", "int", "-1", I(-1)},
		{"i7", "int", "7", I(7)},
		{"imin", "int", "(-9223372036854775807 - 1)", I(math.MinInt64)},
		{"imax", "int", "9223372036854775807", I(math.MaxInt64)},
		{"ihexdata", "int", "0xff", func(*cst.VerifEnv) *mlrval.Mlrval { return mlrval.FromDeferredType("0xff") }},
		{"f0", "float", "0.0", F(0)},
		{"f1_5", "float", "1.5", F(1.5)},
		{"fm2_5", "float", "-2.5", F(-2.5)},
		{"fnan", "float", "(1e300*1e300 - 1e300*1e300)", F(math.NaN())},
		{"finf", "float", "(1e300*1e300)", F(math.Inf(1))},
		{"fninf", "float", "(-(1e300*1e300))", F(math.Inf(-1))},
		{"ftiny", "float", "5e-324", F(5e-324)},
		{"fbig", "float", "1e300", F(1e300)},
		{"true", "boolean", "true", func(*cst.VerifEnv) *mlrval.Mlrval { return mlrval.FromBool(true) }},
		{"false", "boolean", "false", func(*cst.VerifEnv) *mlrval.Mlrval { return mlrval.FromBool(false) }},
		{"empty", "empty", `""`, S("")},
		{"sabc", "string", `"abc"`, S("abc")},
		{"sbadutf8", "string", `"\xff\xfe\x80a"`, S("\xff\xfe\x80a")},
		{"sregexbad", "string", `"a(b[*"`, S("a(b[*")},
		{"sfmt", "string", `"%08.3lf"`, S("%08.3lf")},
		{"sstrf", "string", `"%Y-%m-%d %H:%M:%3S %j"`, S("%Y-%m-%d %H:%M:%3S %j")},
		{"sdate", "string", `"2023-01-01T00:00:00Z"`, S("2023-01-01T00:00:00Z")},
		{"stz", "string", `"Asia/Istanbul"`, S("Asia/Istanbul")},
		{"bytes", "bytes", `bytes("\x00\xffA")`, func(*cst.VerifEnv) *mlrval.Mlrval { return mlrval.FromBytes([]byte{0, 255, 65}) }},
		{"aempty", "array", "[]", func(*cst.VerifEnv) *mlrval.Mlrval { return c18Arr() }},
		{"a12345", "array", "[1,2,3,4,5]", func(*cst.VerifEnv) *mlrval.Mlrval {
			return c18Arr(mlrval.FromInt(1), mlrval.FromInt(2), mlrval.FromInt(3), mlrval.FromInt(4), mlrval.FromInt(5))
		}},
		{"amixed", "array", `[200,-1,"x",[1]]`, func(*cst.VerifEnv) *mlrval.Mlrval {
			return c18Arr(mlrval.FromInt(200), mlrval.FromInt(-1), mlrval.FromString("x"), c18Arr(mlrval.FromInt(1)))
		}},
		{"mempty", "map", "{}", func(*cst.VerifEnv) *mlrval.Mlrval { return c18Map() }},
		{"mnested", "map", `{"a":1,"b":{"c":[1,2]}}`, func(*cst.VerifEnv) *mlrval.Mlrval {
			return c18Map("a", mlrval.FromInt(1), "b", c18Map("c", c18Arr(mlrval.FromInt(1), mlrval.FromInt(2))))
		}},
		{"mopts", "map", `{"interpolate_linearly":true,"output_array_not_map":true}`, func(*cst.VerifEnv) *mlrval.Mlrval {
			return c18Map("interpolate_linearly", mlrval.FromBool(true), "output_array_not_map", mlrval.FromBool(true))
		}},
		{"func1", "funct", "verif_f1", func(e *cst.VerifEnv) *mlrval.Mlrval { return e.Function("verif_f1") }},
		{"func2", "funct", "verif_f2", func(e *cst.VerifEnv) *mlrval.Mlrval { return e.Function("verif_f2") }},
		{"error", "error", `strptime("x","%Y")`, func(*cst.VerifEnv) *mlrval.Mlrval { return mlrval.FromErrorString("verif") }},
		{"null", "null", `json_parse("null")`, func(*cst.VerifEnv) *mlrval.Mlrval { return mlrval.NULL }},
		{"absent", "absent", "@verif_nosuch", func(*cst.VerifEnv) *mlrval.Mlrval { return mlrval.ABSENT }},
	}
	if which == "" || which == "all" {
		return all
	}
	// a comma-separated subset of names
	want := map[string]bool{}
	for _, n := range strings.Split(which, ",") {
		want[n] = true
	}
	out := []c18Rep{}
	for _, r := range all {
		if want[r.name] {
			out = append(out, r)
		}
	}
	return out
}

func cmdBifReps(args []string, in *bufio.Scanner, out *bufio.Writer) {
	which := ""
	if len(args) > 0 {
		which = args[0]
	}
	for i, r := range c18Reps(which) {
		fmt.Fprintf(out, "%d\t%s\t%s\t%s\n", i, r.name, r.kind, hex.EncodeToString([]byte(r.dsl)))
	}
}

type c18Shard struct {
	fidx     int
	name     string
	arity    int
	dispatch string
	class    string
}

func c18Shards(maxArity int) (shards []c18Shard, skipped []string) {
	table := cst.VerifBuiltinTable()
	for i := range table {
		b := &table[i]
		if _, skip := c18Skip[b.Name]; skip {
			skipped = append(skipped, b.Name)
			continue
		}
		for _, n := range b.Arities(maxArity) {
			shards = append(shards, c18Shard{i, b.Name, n, b.Dispatch(n), b.Class})
		}
	}
	return
}

func cmdBifList(args []string, in *bufio.Scanner, out *bufio.Writer) {
	maxArity := 3
	if len(args) > 0 {
		maxArity, _ = strconv.Atoi(args[0])
	}
	shards, skipped := c18Shards(maxArity)
	for _, s := range shards {
		fmt.Fprintf(out, "F\t%d\t%s\t%d\t%s\t%s\n", s.fidx, hex.EncodeToString([]byte(s.name)), s.arity, s.dispatch, hex.EncodeToString([]byte(s.class)))
	}
	for _, n := range skipped {
		fmt.Fprintf(out, "SKIP\t%s\t%s\n", n, c18Skip[n])
	}
	fmt.Fprintf(out, "ROWS\t%d\n", len(cst.VerifBuiltinTable()))
}

func ipow(b, e int) int {
	r := 1
	for i := 0; i < e; i++ {
		r *= b
	}
	return r
}

const c18HangSeconds = 4

// a shard (function, arity) is abandoned after this many hang / runtime-death outcomes; the tuples not
// evaluated are reported with code 'S' (the shard is a finding anyway; after a repair it is walked in full)
const c18MaxDeathsPerShard = 3
const c18Batch = 2048

// bif-worker <reps> <start> <careful> <fidx:arity,fidx:arity,...>
// Walks the concatenation of the listed shards' tuple spaces from global tuple number <start>.
// One code byte per completed tuple on stdout; the first <careful> tuples are written one at a time
// (so that the parent knows exactly which tuple killed or hung the process), the rest in batches.
func cmdBifWorker(args []string, in *bufio.Scanner, out *bufio.Writer) {
	which := args[0]
	start, _ := strconv.Atoi(args[1])
	careful, _ := strconv.Atoi(args[2])
	type sh struct{ fidx, arity int }
	shards := []sh{}
	for _, f := range strings.Split(args[3], ",") {
		p := strings.Split(f, ":")
		a, _ := strconv.Atoi(p[0])
		b, _ := strconv.Atoi(p[1])
		shards = append(shards, sh{a, b})
	}
	// address-space cap: a runaway allocation dies as a Go "fatal error: out of memory" instead of taking the host down
	lim := syscall.Rlimit{Cur: 6 << 30, Max: 6 << 30}
	_ = syscall.Setrlimit(syscall.RLIMIT_AS, &lim)

	reps := c18Reps(which)
	env, err := cst.VerifNewEnv(c18UDFs)
	if err != nil {
		fmt.Fprintln(c18RealStderr, "verif: cannot build UDF environment:", err)
		os.Exit(4)
	}
	table := cst.VerifBuiltinTable()
	n := len(reps)
	if c18ExitHookInstalled {
		c18CaptureStderr()
	}

	// Miller code that prints to os.Stdout must not corrupt the code stream
	realOut := os.Stdout
	if devnull, err := os.OpenFile("/dev/null", os.O_WRONLY, 0); err == nil {
		os.Stdout = devnull
	}

	var progress int64 = -1
	go func() {
		last, lastChange := int64(-2), time.Now()
		for {
			time.Sleep(100 * time.Millisecond)
			p := atomic.LoadInt64(&progress)
			if p != last {
				last, lastChange = p, time.Now()
			} else if time.Since(lastChange) > c18HangSeconds*time.Second {
				// the main goroutine is stuck inside the call for tuple progress+1 and is not touching buf
				if c18FlushFromWatchdog != nil {
					c18FlushFromWatchdog()
				}
				realOut.Write([]byte{'H'})
				os.Exit(3)
			}
		}
	}()

	buf := make([]byte, 0, c18Batch)
	flush := func() {
		if len(buf) > 0 {
			realOut.Write(buf)
			buf = buf[:0]
		}
	}
	c18FlushFromWatchdog = flush
	g := 0 // global tuple number
	done := 0
	for _, s := range shards {
		total := ipow(n, s.arity)
		if g+total <= start {
			g += total
			continue
		}
		b := &table[s.fidx]
		t0 := 0
		if start > g {
			t0 = start - g
		}
		for t := t0; t < total; t++ {
			argv := make([]*mlrval.Mlrval, s.arity)
			x := t
			excluded := false
			for k := s.arity - 1; k >= 0; k-- {
				argv[k] = reps[x%n].mk(env)
				if c18SkipTuples[b.Name][k][reps[x%n].name] {
					excluded = true
				}
				x /= n
			}
			if excluded {
				buf = append(buf, 'K')
				done++
				atomic.StoreInt64(&progress, int64(g+t))
				continue
			}
			if done < careful {
				flush()
				atomic.StoreInt64(&c18CarefulNow, 1)
			} else {
				atomic.StoreInt64(&c18CarefulNow, 0)
				if len(buf) >= c18Batch {
					flush()
				}
			}
			code := c18CallOne(b, env, argv, g+t)
			buf = append(buf, code)
			done++
			atomic.StoreInt64(&progress, int64(g+t))
		}
		g += total
	}
	flush()
}

var c18CarefulNow int64
var c18FlushFromWatchdog func()

type c18Exit struct{ code int }

// Set by c18_exithook.go (build tag c18exit, instrumented scratch copy only): Miller's os.Exit calls are
// redirected to a hook which, while c18ExitTrap is set, panics with c18Exit instead of ending the process.
var c18ExitHookInstalled = false
var c18ExitTrap = false
var c18RealStderr = os.Stderr
var c18StderrFile *os.File

// c18CaptureStderr points os.Stderr (the variable Miller writes its `mlr:` messages to) at a scratch file.
func c18CaptureStderr() {
	f, err := os.CreateTemp("", "c18-stderr-*")
	if err != nil {
		return
	}
	os.Remove(f.Name())
	c18StderrFile = f
	os.Stderr = f
}

// c18StderrTake returns (the tail of) what Miller wrote to stderr since the last take, and resets the file.
func c18StderrTake() string {
	if c18StderrFile == nil {
		return ""
	}
	end, _ := c18StderrFile.Seek(0, 1)
	mark := int64(0)
	if end > 600 {
		mark = end - 600
	}
	b := make([]byte, end-mark)
	c18StderrFile.ReadAt(b, mark)
	c18StderrFile.Truncate(0)
	c18StderrFile.Seek(0, 0)
	return string(b)
}

// classification of a fatal exit by what was written to stderr before it
func c18FatalCode(rc int, msg string) byte {
	low := strings.ToLower(msg)
	switch {
	case strings.Contains(msg, "fatal error:") || strings.Contains(msg, "goroutine ") || strings.Contains(msg, "panic:"):
		return 'R' // Go runtime death
	case strings.Contains(low, "internal coding error"):
		return 'I'
	case rc == 0:
		return 'Z' // exit status 0 in the middle of an evaluation
	case !strings.Contains(msg, "mlr:") && !strings.Contains(msg, "mlr "):
		return 'U' // non-zero exit without an `mlr:` message
	}
	return 'F'
}

func c18CallOne(b *cst.VerifBIF, env *cst.VerifEnv, argv []*mlrval.Mlrval, t int) (code byte) {
	defer func() {
		c18ExitTrap = false
		if r := recover(); r != nil {
			if ex, ok := r.(c18Exit); ok {
				msg := strings.ReplaceAll(c18StderrTake(), "\n", " | ")
				code = c18FatalCode(ex.code, msg)
				fmt.Fprintf(c18RealStderr, "FATAL %d %c %s\n", t, code, hex.EncodeToString([]byte(fmt.Sprintf("exit=%d %s", ex.code, msg))))
				return
			}
			msg := fmt.Sprint(r)
			if len(msg) > 300 {
				msg = msg[:300]
			}
			fmt.Fprintf(c18RealStderr, "PANIC %d %s\n", t, strings.ReplaceAll(msg, "\n", " "))
			code = 'P'
		}
	}()
	c18ExitTrap = c18ExitHookInstalled
	ret := b.Call(env, argv)
	if ret == nil {
		panic("verif: function returned nil *Mlrval")
	}
	// what print/emit/assignment do with the result
	_ = ret.String()
	if ret.IsError() {
		return 'e'
	}
	if ret.IsAbsent() {
		return 'a'
	}
	return 'v'
}

type c18Detail struct {
	tuple int // global tuple number within the group
	code  byte
	msg   string
}

// run one group of shards to completion, restarting the worker after every death / hang
func c18RunGroup(group []c18Shard, nreps int, which string) (codes []byte, details []c18Detail) {
	total := 0
	specs := []string{}
	for _, s := range group {
		total += ipow(nreps, s.arity)
		specs = append(specs, fmt.Sprintf("%d:%d", s.fidx, s.arity))
	}
	spec := strings.Join(specs, ",")
	codes = make([]byte, 0, total)
	self, _ := os.Executable()
	careful := 0
	if !c18ExitHookInstalled {
		careful = total // without exit trapping every fatal `mlr:` error ends the worker: always write tuple by tuple
	}
	deaths := 0
	bounds := []int{0} // global tuple number at which each shard starts, plus the end
	for _, sh := range group {
		bounds = append(bounds, bounds[len(bounds)-1]+ipow(nreps, sh.arity))
	}
	shardOf := func(t int) int {
		for i := 0; i+1 < len(bounds); i++ {
			if t < bounds[i+1] {
				return i
			}
		}
		return len(bounds) - 2
	}
	badPerShard := make([]int, len(group))
	noteBad := func(t int) {
		i := shardOf(t)
		badPerShard[i]++
		if badPerShard[i] >= c18MaxDeathsPerShard && len(codes) < bounds[i+1] {
			details = append(details, c18Detail{len(codes), 'S', fmt.Sprintf("shard abandoned after %d hang/crash outcomes: %d tuples not evaluated", badPerShard[i], bounds[i+1]-len(codes))})
			for len(codes) < bounds[i+1] {
				codes = append(codes, 'S')
			}
		}
	}
	for len(codes) < total {
		start := len(codes)
		cmd := exec.Command(self, "bif-worker", which, strconv.Itoa(start), strconv.Itoa(careful), spec)
		if which == "" {
			cmd.Args[2] = "all"
		}
		cmd.Env = append(os.Environ(), "MLRRC=__none__", "GOMAXPROCS=2", "TZ=UTC")
		var so, se bytes.Buffer
		cmd.Stdout, cmd.Stderr = &so, &se
		cmd.Stdin = nil
		done := make(chan error, 1)
		if err := cmd.Start(); err != nil {
			details = append(details, c18Detail{start, 'X', "cannot start worker: " + err.Error()})
			codes = append(codes, 'X')
			continue
		}
		go func() { done <- cmd.Wait() }()
		var werr error
		select {
		case werr = <-done:
		case <-time.After(30 * time.Minute):
			cmd.Process.Kill()
			werr = <-done
		}
		got := so.Bytes()
		if len(got) > total-start {
			got = got[:total-start]
		}
		codes = append(codes, got...)
		stderr := se.String()
		for _, line := range strings.Split(stderr, "\n") {
			if strings.HasPrefix(line, "PANIC ") {
				parts := strings.SplitN(line, " ", 3)
				t, _ := strconv.Atoi(parts[1])
				msg := ""
				if len(parts) > 2 {
					msg = parts[2]
				}
				if t < len(codes) {
					details = append(details, c18Detail{t, 'P', msg})
				}
			} else if strings.HasPrefix(line, "FATAL ") {
				parts := strings.SplitN(line, " ", 4)
				if len(parts) == 4 {
					t, _ := strconv.Atoi(parts[1])
					m, _ := hex.DecodeString(parts[3])
					if t < len(codes) {
						details = append(details, c18Detail{t, parts[2][0], string(m)})
					}
				}
			}
		}
		if len(codes) >= total {
			break
		}
		deaths++
		wasCareful := careful > 0 && len(got) < careful
		if len(got) > 0 && got[len(got)-1] == 'H' {
			details = append(details, c18Detail{len(codes) - 1, 'H', fmt.Sprintf("no progress for %d s", c18HangSeconds)})
			careful = 0
			noteBad(len(codes) - 1)
			continue
		}
		if !wasCareful {
			// died somewhere inside an unacknowledged batch: redo from the acknowledged point, tuple by tuple
			careful = 2 * c18Batch
			if deaths > 200 {
				careful = total
			}
			continue
		}
		// the worker died while evaluating tuple len(codes)
		rc := -1
		if ee, ok := werr.(*exec.ExitError); ok {
			rc = ee.ExitCode()
		}
		tail := c18NonPanicTail(stderr)
		code := c18FatalCode(rc, tail)
		if rc == 3 && tail == "" {
			code = 'H'
		}
		_ = wasCareful
		details = append(details, c18Detail{len(codes), code, fmt.Sprintf("exit=%d %s", rc, tail)})
		codes = append(codes, code)
		if c18ExitHookInstalled {
			careful = 0
		}
		if code == 'R' || code == 'H' {
			noteBad(len(codes) - 1)
		}
	}
	return
}

func c18NonPanicTail(stderr string) string {
	keep := []string{}
	for _, line := range strings.Split(stderr, "\n") {
		if line == "" || strings.HasPrefix(line, "PANIC ") || strings.HasPrefix(line, "FATAL ") {
			continue
		}
		keep = append(keep, line)
	}
	s := strings.Join(keep, " | ")
	if len(s) > 400 {
		s = s[len(s)-400:]
	}
	return s
}

func c18RLE(codes []byte) string {
	var sb strings.Builder
	for i := 0; i < len(codes); {
		j := i
		for j < len(codes) && codes[j] == codes[i] {
			j++
		}
		fmt.Fprintf(&sb, "%c%d", codes[i], j-i)
		i = j
	}
	return sb.String()
}

// bif-matrix <maxArity> <jobs> [reps|all] [only-function-name-hex]
func cmdBifMatrix(args []string, in *bufio.Scanner, out *bufio.Writer) {
	maxArity, jobs, which := 3, 8, "all"
	if len(args) > 0 {
		maxArity, _ = strconv.Atoi(args[0])
	}
	if len(args) > 1 {
		jobs, _ = strconv.Atoi(args[1])
	}
	if len(args) > 2 && args[2] != "" {
		which = args[2]
	}
	only := ""
	if len(args) > 3 {
		b, _ := hex.DecodeString(args[3])
		only = string(b) // restrict to one function name (replay)
	}
	minArity := 0
	if len(args) > 4 {
		minArity, _ = strconv.Atoi(args[4])
	}
	reps := c18Reps(which)
	all, skipped := c18Shards(maxArity)
	shards := []c18Shard{}
	for _, s := range all {
		if (only == "" || s.name == only) && s.arity >= minArity {
			shards = append(shards, s)
		}
	}
	// greedy balancing of shards over `jobs` groups by tuple count, biggest first
	order := make([]int, 0, len(shards))
	for a := maxArity; a >= 0; a-- {
		for i, s := range shards {
			if s.arity == a {
				order = append(order, i)
			}
		}
	}
	if jobs > len(shards) {
		jobs = len(shards)
	}
	if jobs < 1 {
		jobs = 1
	}
	groups := make([][]int, jobs)
	load := make([]int, jobs)
	for _, i := range order {
		m := 0
		for j := range load {
			if load[j] < load[m] {
				m = j
			}
		}
		groups[m] = append(groups[m], i)
		load[m] += ipow(len(reps), shards[i].arity) + 50
	}
	shardCodes := make([][]byte, len(shards))
	shardDetails := make([][]c18Detail, len(shards))
	var wg sync.WaitGroup
	for j := range groups {
		if len(groups[j]) == 0 {
			continue
		}
		wg.Add(1)
		go func(j int) {
			defer wg.Done()
			group := []c18Shard{}
			for _, i := range groups[j] {
				group = append(group, shards[i])
			}
			codes, details := c18RunGroup(group, len(reps), which)
			g := 0
			for _, i := range groups[j] {
				total := ipow(len(reps), shards[i].arity)
				shardCodes[i] = codes[g : g+total]
				for _, d := range details {
					if d.tuple >= g && d.tuple < g+total {
						shardDetails[i] = append(shardDetails[i], c18Detail{d.tuple - g, d.code, d.msg})
					}
				}
				g += total
			}
		}(j)
	}
	wg.Wait()
	fmt.Fprintf(out, "N\t%d\t%d\t%t\n", len(reps), len(cst.VerifBuiltinTable()), c18ExitHookInstalled)
	for _, n := range skipped {
		fmt.Fprintf(out, "SKIP\t%s\t%s\n", n, c18Skip[n])
	}
	for i, s := range shards {
		fmt.Fprintf(out, "S\t%s\t%d\t%s\t%d\t%s\n", hex.EncodeToString([]byte(s.name)), s.arity, s.dispatch, len(shardCodes[i]), c18RLE(shardCodes[i]))
		for _, d := range shardDetails[i] {
			fmt.Fprintf(out, "D\t%s\t%d\t%d\t%c\t%s\n", hex.EncodeToString([]byte(s.name)), s.arity, d.tuple, d.code, hex.EncodeToString([]byte(d.msg)))
		}
	}
}
