package main

// zstd-compress / zstd-decompress: stdin bytes -> stdout.  The check needs .zst inputs for in-place mode and has to
// verify that the rewritten file is a zstd frame holding the expected text (no zstd module in the Python here).

import (
	"bufio"
	"io"
	"os"

	"github.com/klauspost/compress/zstd"
)

func init() {
	subcommands["zstd-compress"] = cmdZstdCompress
	subcommands["zstd-decompress"] = cmdZstdDecompress
}

func cmdZstdCompress(args []string, in *bufio.Scanner, out *bufio.Writer) {
	data, err := io.ReadAll(os.Stdin)
	if err != nil {
		os.Exit(1)
	}
	enc, err := zstd.NewWriter(out)
	if err != nil {
		os.Exit(1)
	}
	enc.Write(data)
	enc.Close()
}

func cmdZstdDecompress(args []string, in *bufio.Scanner, out *bufio.Writer) {
	dec, err := zstd.NewReader(os.Stdin)
	if err != nil {
		os.Exit(1)
	}
	defer dec.Close()
	if _, err := io.Copy(out, dec); err != nil {
		out.Flush()
		os.Exit(1)
	}
}
