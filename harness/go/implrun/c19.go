package main

// zstd-compress: stdin bytes -> zstd frame on stdout (the tree only links the klauspost decoder into mlr; the
// check needs a .zst input to see what in-place mode does with it).

import (
	"bufio"
	"io"
	"os"

	"github.com/klauspost/compress/zstd"
)

func init() {
	subcommands["zstd-compress"] = cmdZstdCompress
}

func cmdZstdCompress(args []string, in *bufio.Scanner, out *bufio.Writer) {
	data, err := io.ReadAll(os.Stdin)
	if err != nil {
		os.Exit(1)
	}
	enc, err := zstd.NewWriter(out)
	if err != nil {
		os.Exit(1)
	}
	enc.Write(data)
	enc.Close()
}
