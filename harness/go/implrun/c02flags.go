package main

// C02 (flag-table part): the complete main-flag table, the effect of a main-flag argv on the
// option structs, and the separator alias / per-format default tables.
//
// Wire format: JSON lines.  Every option VALUE and every separator value is hex-encoded
// (they may hold arbitrary bytes: "\x1f", tabs, newlines ...); field names, flag names,
// section names and format names are plain ASCII.

import (
	"bufio"
	"encoding/hex"
	"encoding/json"
	"fmt"
	"strings"

	"github.com/johnkerl/miller/v6/pkg/cli"
	"github.com/johnkerl/miller/v6/pkg/lib"
)

func init() {
	subcommands["flag-table"] = cmdFlagTable
	subcommands["flag-eval"] = cmdFlagEval
	subcommands["sep-tables"] = cmdSepTables
}

// flag-table: one JSON line per FLAG_TABLE entry, in the order FlagTable.Parse searches:
// {"section":..., "name":..., "alts":[...], "arg":...}
func cmdFlagTable(args []string, in *bufio.Scanner, out *bufio.Writer) {
	for _, f := range cli.VerifFlagTable() {
		b, _ := json.Marshal(map[string]interface{}{
			"section": f.Section, "name": f.Name, "alts": f.Alts, "arg": f.Arg,
		})
		fmt.Fprintln(out, string(b))
	}
}

func hexPairs(p [][2]string) [][2]string {
	out := make([][2]string, len(p))
	for i, kv := range p {
		out[i] = [2]string{kv[0], hex.EncodeToString([]byte(kv[1]))}
	}
	return out
}

// parseMainFlags mirrors climain.ParseCommandLine for a command line consisting of main flags only:
// lib.Getoptify, then pass one (FLAG_TABLE.Parse over the whole argv on throwaway options, cutting it
// into flag sequences), then pass two (each sequence parsed into the real options, starting from
// cli.DefaultOptions()).  .mlrrc loading and the MLR_OFMT / MLR_FAIL_ON_DATA_ERROR environment
// overrides of pass two are not applied here.
func parseMainFlags(tokens []string) (options *cli.TOptions, errtext string) {
	defer func() {
		if r := recover(); r != nil {
			options = nil
			errtext = fmt.Sprintf("panic: %v", r)
		}
	}()
	args := lib.Getoptify(tokens)
	argc := len(args)
	throwaway := cli.DefaultOptions()
	sequences := [][]string{}
	argi := 0
	for argi < argc {
		oargi := argi
		if args[argi] == "" || args[argi][0] != '-' {
			return nil, fmt.Sprintf("token %q is not a flag", args[argi])
		}
		handled, err := cli.FLAG_TABLE.Parse(args, argc, &argi, throwaway)
		if err != nil {
			return nil, "flag error: " + err.Error()
		}
		if !handled {
			return nil, fmt.Sprintf("option %q not recognized", args[argi])
		}
		sequences = append(sequences, args[oargi:argi])
	}
	options = cli.DefaultOptions()
	for _, seq := range sequences {
		i := 0
		handled, err := cli.FLAG_TABLE.Parse(seq, len(seq), &i, options)
		if err != nil {
			return nil, "flag error (pass two): " + err.Error()
		}
		if !handled || i != len(seq) {
			return nil, fmt.Sprintf("pass two did not consume sequence %q", seq)
		}
	}
	return options, ""
}

// flag-eval: each stdin line is a JSON array of main-flag argv tokens.  Output per line:
//
//	{"ok":false,"err":...}                                    a token was not handled / flag error
//	{"ok":true,"raw":[[k,hexv],...],"final":null,"ferr":...}  Finalize{Reader,Writer}Options failed
//	{"ok":true,"raw":[...],"final":[[k,hexv],...],"flatten":b,"unflatten":b}
//
// raw = options after parsing, final = after FinalizeReaderOptions + FinalizeWriterOptions (what the
// reader/writer factories see).  WriterOptions.FlushOnEveryRecord is rendered as "<env>" in the final
// dump unless a flag set it: FinalizeWriterOptions takes it from isatty(stdout).
func cmdFlagEval(args []string, in *bufio.Scanner, out *bufio.Writer) {
	emit := func(m map[string]interface{}) {
		b, _ := json.Marshal(m)
		fmt.Fprintln(out, string(b))
	}
	for in.Scan() {
		line := strings.TrimSpace(in.Text())
		if line == "" {
			continue
		}
		var tokens []string
		if err := json.Unmarshal([]byte(line), &tokens); err != nil {
			emit(map[string]interface{}{"ok": false, "err": "bad request: " + err.Error()})
			continue
		}
		options, errtext := parseMainFlags(tokens)
		if options == nil {
			emit(map[string]interface{}{"ok": false, "err": errtext})
			continue
		}
		raw := hexPairs(cli.VerifDumpOptions(options))
		ferr := finalize(options)
		if ferr != "" {
			emit(map[string]interface{}{"ok": true, "raw": raw, "final": nil, "ferr": ferr})
			continue
		}
		fin := cli.VerifDumpOptions(options)
		if !cli.VerifFlushWasSpecified(options) {
			for i := range fin {
				if fin[i][0] == "WriterOptions.FlushOnEveryRecord" {
					fin[i][1] = "<env>"
				}
			}
		}
		emit(map[string]interface{}{
			"ok": true, "raw": raw, "final": hexPairs(fin),
			"flatten":   cli.DecideFinalFlatten(&options.WriterOptions),
			"unflatten": cli.DecideFinalUnflatten(options, [][]string{{"cat"}}),
		})
	}
}

func finalize(options *cli.TOptions) (errtext string) {
	defer func() {
		if r := recover(); r != nil {
			errtext = fmt.Sprintf("panic: %v", r)
		}
	}()
	if err := cli.FinalizeReaderOptions(&options.ReaderOptions); err != nil {
		return "reader: " + err.Error()
	}
	if err := cli.FinalizeWriterOptions(&options.WriterOptions); err != nil {
		return "writer: " + err.Error()
	}
	return ""
}

func hexMap(m map[string]string) map[string]string {
	out := map[string]string{}
	for k, v := range m {
		out[k] = hex.EncodeToString([]byte(v))
	}
	return out
}

// sep-tables: one JSON object; all separator values hex-encoded, keys sorted by encoding/json.
func cmdSepTables(args []string, in *bufio.Scanner, out *bufio.Writer) {
	b, _ := json.Marshal(map[string]interface{}{
		"aliases":        hexMap(cli.SEPARATOR_NAMES_TO_VALUES),
		"regex_aliases":  hexMap(cli.SEPARATOR_REGEX_NAMES_TO_VALUES),
		"default_fs":     hexMap(cli.VerifDefaultFSes()),
		"default_ps":     hexMap(cli.VerifDefaultPSes()),
		"default_rs":     hexMap(cli.VerifDefaultRSes()),
		"default_repifs": cli.VerifDefaultAllowRepeatIFSes(),
	})
	fmt.Fprintln(out, string(b))
}
