// C08: behavioural dump of the null-data algebra.
//
// implrun c08-matrix
//
//	applies every real binary / unary / variadic BIF behind a DSL operator (and the math-library
//	functions and the is_* predicates) to >=3 representative values of each of the 12 Mlrval kinds
//	and classifies every result relative to its arguments.  One JSON object per line:
//	  {"t":"B"|"U"|"V","op":name,"k":[kind numbers of the arguments],
//	   "cls":[classes common to ALL representative tuples],"kinds":[result kinds seen],
//	   "per":[{"a":[argument texts],"cls":[...],"rk":result kind,"rs":result text}, ...]}
//	classes: Absent Error Void Null True False Int0 Float0 Arg<i> NegArg<i> StrArg<i> Panic
//	(Arg<i>: same kind and same text as argument i (1-up); NegArg<i>: equals unary minus of argument i;
//	 StrArg<i>: a string/empty value whose text is the text of argument i).
package main

import (
	"bufio"
	"encoding/json"
	"errors"
	"fmt"
	"math"
	"sort"

	"github.com/johnkerl/miller/v6/pkg/bifs"
	"github.com/johnkerl/miller/v6/pkg/mlrval"
)

func init() {
	subcommands["c08-matrix"] = cmdC08Matrix
}

type c08rep func() *mlrval.Mlrval

func c08map(kvs ...interface{}) *mlrval.Mlrval {
	m := mlrval.NewMlrmap()
	for i := 0; i+1 < len(kvs); i += 2 {
		m.PutReference(kvs[i].(string), kvs[i+1].(*mlrval.Mlrval))
	}
	return mlrval.FromMap(m)
}

// representatives per kind, in MT order
func c08reps() [][]c08rep {
	return [][]c08rep{
		/*INT*/ {
			func() *mlrval.Mlrval { return mlrval.FromInt(3) },
			func() *mlrval.Mlrval { return mlrval.FromInt(-7) },
			func() *mlrval.Mlrval { return mlrval.FromDeferredType("1000000007") },
		},
		/*FLOAT*/ {
			func() *mlrval.Mlrval { return mlrval.FromFloat(2.5) },
			func() *mlrval.Mlrval { return mlrval.FromFloat(-0.25) },
			func() *mlrval.Mlrval { return mlrval.FromDeferredType("6.25e-2") },
		},
		/*BOOL*/ {
			func() *mlrval.Mlrval { return mlrval.TRUE },
			func() *mlrval.Mlrval { return mlrval.FALSE },
			func() *mlrval.Mlrval { return mlrval.FromBool(true) },
		},
		/*VOID*/ {
			func() *mlrval.Mlrval { return mlrval.VOID },
			func() *mlrval.Mlrval { return mlrval.FromString("") },
			func() *mlrval.Mlrval { return mlrval.FromDeferredType("") },
		},
		/*STRING*/ {
			func() *mlrval.Mlrval { return mlrval.FromString("abc") },
			func() *mlrval.Mlrval { return mlrval.FromDeferredType("hello world") },
			func() *mlrval.Mlrval { return mlrval.FromString("17") },
		},
		/*BYTES*/ {
			func() *mlrval.Mlrval { return mlrval.FromBytes([]byte("xyz")) },
			func() *mlrval.Mlrval { return mlrval.FromBytes([]byte{0, 255}) },
			func() *mlrval.Mlrval { return mlrval.FromBytes([]byte{}) },
		},
		/*ARRAY*/ {
			func() *mlrval.Mlrval {
				return mlrval.FromArray([]*mlrval.Mlrval{mlrval.FromInt(1), mlrval.FromInt(2)})
			},
			func() *mlrval.Mlrval { return mlrval.FromEmptyArray() },
			func() *mlrval.Mlrval {
				return mlrval.FromArray([]*mlrval.Mlrval{mlrval.FromString("a"), mlrval.FromSingletonArray(mlrval.FromInt(3))})
			},
		},
		/*MAP*/ {
			func() *mlrval.Mlrval { return c08map("a", mlrval.FromInt(1)) },
			func() *mlrval.Mlrval { return mlrval.FromEmptyMap() },
			func() *mlrval.Mlrval { return c08map("x", c08map("y", mlrval.FromInt(2)), "z", mlrval.FromString("s")) },
		},
		/*FUNC*/ {
			func() *mlrval.Mlrval { return mlrval.FromFunction(nil, "f") },
			func() *mlrval.Mlrval { return mlrval.FromFunction(nil, "fl0052") },
			func() *mlrval.Mlrval { return mlrval.FromFunction(42, "g") },
		},
		/*ERROR*/ {
			func() *mlrval.Mlrval { return mlrval.FromError(errors.New("boom")) },
			func() *mlrval.Mlrval { return mlrval.FromAnonymousError() },
			func() *mlrval.Mlrval { return bifs.BIF_plus_binary(mlrval.TRUE, mlrval.FromInt(1)) },
		},
		/*NULL*/ {
			func() *mlrval.Mlrval { return mlrval.NULL },
			func() *mlrval.Mlrval { return mlrval.NULL.Copy() },
			func() *mlrval.Mlrval { return mlrval.NULL },
		},
		/*ABSENT*/ {
			func() *mlrval.Mlrval { return mlrval.ABSENT },
			func() *mlrval.Mlrval { return mlrval.ABSENT.Copy() },
			func() *mlrval.Mlrval { return mlrval.ABSENT },
		},
	}
}

func c08text(mv *mlrval.Mlrval) string {
	switch mv.Type() {
	case mlrval.MT_ABSENT:
		return "(absent)"
	case mlrval.MT_ERROR:
		return "(error)"
	}
	return mv.String()
}

func c08kind(mv *mlrval.Mlrval) int { return int(mv.Type()) }

// same kind and same value: numbers compare by value (the variadic min/max re-format floats), everything else by text
func c08same(a, b *mlrval.Mlrval) bool {
	if a.Type() != b.Type() {
		return false
	}
	switch a.Type() {
	case mlrval.MT_INT:
		x, _ := a.GetIntValue()
		y, _ := b.GetIntValue()
		return x == y
	case mlrval.MT_FLOAT:
		x, _ := a.GetFloatValue()
		y, _ := b.GetFloatValue()
		return math.Float64bits(x) == math.Float64bits(y)
	}
	return c08text(a) == c08text(b)
}

type c08obs struct {
	Args []string `json:"a"`
	Cls  []string `json:"cls"`
	RK   int      `json:"rk"`
	RS   string   `json:"rs"`
}

// classify result r of applying f to fresh copies of the arguments; args are re-created by the
// constructors so that in-place type inference inside a BIF cannot influence the comparison
func c08classify(mk []c08rep, f func([]*mlrval.Mlrval) *mlrval.Mlrval) (o c08obs) {
	args := make([]*mlrval.Mlrval, len(mk))
	for i := range mk {
		args[i] = mk[i]()
		o.Args = append(o.Args, c08text(mk[i]()))
	}
	var r *mlrval.Mlrval
	func() {
		defer func() {
			if e := recover(); e != nil {
				r = nil
				o.RS = fmt.Sprint(e)
			}
		}()
		r = f(args)
	}()
	if r == nil {
		o.Cls = []string{"Panic"}
		o.RK = -1
		return
	}
	o.RK = c08kind(r)
	o.RS = c08text(r)
	cls := []string{}
	switch r.Type() {
	case mlrval.MT_ABSENT:
		cls = append(cls, "Absent")
	case mlrval.MT_ERROR:
		cls = append(cls, "Error")
	case mlrval.MT_VOID:
		cls = append(cls, "Void")
	case mlrval.MT_NULL:
		cls = append(cls, "Null")
	case mlrval.MT_BOOL:
		if b, ok := r.GetBoolValue(); ok && b {
			cls = append(cls, "True")
		} else {
			cls = append(cls, "False")
		}
	case mlrval.MT_INT:
		if n, ok := r.GetIntValue(); ok && n == 0 {
			cls = append(cls, "Int0")
		}
	case mlrval.MT_FLOAT:
		if x, ok := r.GetFloatValue(); ok && x == 0 {
			cls = append(cls, "Float0")
		}
	}
	for i := range mk {
		a := mk[i]()
		if c08same(r, a) {
			cls = append(cls, fmt.Sprintf("Arg%d", i+1))
		}
		if a.Type() == mlrval.MT_INT || a.Type() == mlrval.MT_FLOAT {
			if c08same(r, bifs.BIF_minus_unary(mk[i]())) {
				cls = append(cls, fmt.Sprintf("NegArg%d", i+1))
			}
		}
		if (r.Type() == mlrval.MT_STRING || r.Type() == mlrval.MT_VOID) && c08text(r) == c08text(a) {
			cls = append(cls, fmt.Sprintf("StrArg%d", i+1))
		}
	}
	o.Cls = cls
	return
}

type c08cell struct {
	T     string   `json:"t"`
	Op    string   `json:"op"`
	K     []int    `json:"k"`
	Cls   []string `json:"cls"`
	Kinds []int    `json:"kinds"`
	Per   []c08obs `json:"per"`
}

func c08cellOf(t, op string, kinds []int, f func([]*mlrval.Mlrval) *mlrval.Mlrval, reps [][]c08rep) c08cell {
	cell := c08cell{T: t, Op: op, K: kinds, Cls: []string{}, Kinds: []int{}, Per: []c08obs{}}
	// all tuples of representatives
	idx := make([]int, len(kinds))
	first := true
	var common map[string]bool
	kindset := map[int]bool{}
	for {
		mk := make([]c08rep, len(kinds))
		for i, k := range kinds {
			mk[i] = reps[k][idx[i]]
		}
		o := c08classify(mk, f)
		cell.Per = append(cell.Per, o)
		kindset[o.RK] = true
		cs := map[string]bool{}
		for _, c := range o.Cls {
			cs[c] = true
		}
		if first {
			common = cs
			first = false
		} else {
			for c := range common {
				if !cs[c] {
					delete(common, c)
				}
			}
		}
		// next tuple
		j := len(idx) - 1
		for j >= 0 {
			idx[j]++
			if idx[j] < len(reps[kinds[j]]) {
				break
			}
			idx[j] = 0
			j--
		}
		if j < 0 {
			break
		}
	}
	for c := range common {
		cell.Cls = append(cell.Cls, c)
	}
	sort.Strings(cell.Cls)
	for k := range kindset {
		cell.Kinds = append(cell.Kinds, k)
	}
	sort.Ints(cell.Kinds)
	return cell
}

type c08bin struct {
	name string
	f    bifs.BinaryFunc
}
type c08un struct {
	name string
	f    bifs.UnaryFunc
}

func cmdC08Matrix(args []string, in *bufio.Scanner, out *bufio.Writer) {
	reps := c08reps()
	enc := json.NewEncoder(out)
	nk := int(mlrval.MT_DIM)
	if nk != len(reps) {
		fmt.Fprintf(out, "{\"t\":\"FATAL\",\"why\":\"MT_DIM=%d but %d kinds of representatives\"}\n", nk, len(reps))
		return
	}
	for k := 0; k < nk; k++ {
		names := map[string]interface{}{"t": "K", "k": k, "name": mlrval.TYPE_NAMES[k]}
		// check every representative really has its kind
		ok := true
		for _, r := range reps[k] {
			if int(r().Type()) != k {
				ok = false
			}
		}
		names["reps_ok"] = ok
		enc.Encode(names)
	}

	binaries := []c08bin{
		{"+", bifs.BIF_plus_binary}, {"-", bifs.BIF_minus_binary}, {"*", bifs.BIF_times},
		{"/", bifs.BIF_divide}, {"//", bifs.BIF_int_divide}, {"%", bifs.BIF_modulus}, {"**", bifs.BIF_pow},
		{".+", bifs.BIF_dot_plus}, {".-", bifs.BIF_dot_minus}, {".*", bifs.BIF_dot_times}, {"./", bifs.BIF_dot_divide},
		{"&", bifs.BIF_bitwise_and}, {"|", bifs.BIF_bitwise_or}, {"^", bifs.BIF_bitwise_xor},
		{"<<", bifs.BIF_left_shift}, {">>", bifs.BIF_signed_right_shift}, {">>>", bifs.BIF_unsigned_right_shift},
		{".", bifs.BIF_dot},
		{"min_binary", bifs.BIF_min_binary}, {"max_binary", bifs.BIF_max_binary},
		{"min", func(a, b *mlrval.Mlrval) *mlrval.Mlrval { return bifs.BIF_min_variadic([]*mlrval.Mlrval{a, b}) }},
		{"max", func(a, b *mlrval.Mlrval) *mlrval.Mlrval { return bifs.BIF_max_variadic([]*mlrval.Mlrval{a, b}) }},
		{"==", bifs.BIF_equals}, {"!=", bifs.BIF_not_equals}, {">", bifs.BIF_greater_than}, {">=", bifs.BIF_greater_than_or_equals},
		{"<", bifs.BIF_less_than}, {"<=", bifs.BIF_less_than_or_equals}, {"<=>", bifs.BIF_cmp},
		{"^^", bifs.BIF_logical_XOR}, {"&&_bif", bifs.BIF_logical_AND}, {"||_bif", bifs.BIF_logical_OR},
		{"atan2", bifs.BIF_atan2}, {"roundm", bifs.BIF_roundm},
	}
	for _, b := range binaries {
		f := b.f
		for k1 := 0; k1 < nk; k1++ {
			for k2 := 0; k2 < nk; k2++ {
				enc.Encode(c08cellOf("B", b.name, []int{k1, k2},
					func(a []*mlrval.Mlrval) *mlrval.Mlrval { return f(a[0], a[1]) }, reps))
			}
		}
	}

	unaries := []c08un{
		{"+u", bifs.BIF_plus_unary}, {"-u", bifs.BIF_minus_unary}, {"~", bifs.BIF_bitwise_not}, {"!", bifs.BIF_logical_NOT},
		{"bitcount", bifs.BIF_bitcount},
		// math library (mudispo / imudispo)
		{"acos", bifs.BIF_acos}, {"acosh", bifs.BIF_acosh}, {"asin", bifs.BIF_asin}, {"asinh", bifs.BIF_asinh},
		{"atan", bifs.BIF_atan}, {"atanh", bifs.BIF_atanh}, {"cbrt", bifs.BIF_cbrt}, {"cos", bifs.BIF_cos},
		{"cosh", bifs.BIF_cosh}, {"erf", bifs.BIF_erf}, {"erfc", bifs.BIF_erfc}, {"exp", bifs.BIF_exp},
		{"expm1", bifs.BIF_expm1}, {"invqnorm", bifs.BIF_invqnorm}, {"log", bifs.BIF_log}, {"log10", bifs.BIF_log10},
		{"log1p", bifs.BIF_log1p}, {"qnorm", bifs.BIF_qnorm}, {"sin", bifs.BIF_sin}, {"sinh", bifs.BIF_sinh},
		{"sqrt", bifs.BIF_sqrt}, {"tan", bifs.BIF_tan}, {"tanh", bifs.BIF_tanh},
		{"abs", bifs.BIF_abs}, {"ceil", bifs.BIF_ceil}, {"floor", bifs.BIF_floor}, {"round", bifs.BIF_round}, {"sgn", bifs.BIF_sgn},
		// variadic min/max with one argument
		{"min1", func(a *mlrval.Mlrval) *mlrval.Mlrval { return bifs.BIF_min_variadic([]*mlrval.Mlrval{a}) }},
		{"max1", func(a *mlrval.Mlrval) *mlrval.Mlrval { return bifs.BIF_max_variadic([]*mlrval.Mlrval{a}) }},
		// type predicates
		{"is_absent", bifs.BIF_is_absent}, {"is_error", bifs.BIF_is_error}, {"is_bool", bifs.BIF_is_bool},
		{"is_boolean", bifs.BIF_is_boolean}, {"is_empty", bifs.BIF_is_empty}, {"is_empty_map", bifs.BIF_is_emptymap},
		{"is_bytes", bifs.BIF_is_bytes}, {"is_float", bifs.BIF_is_float}, {"is_int", bifs.BIF_is_int},
		{"is_map", bifs.BIF_is_map}, {"is_array", bifs.BIF_is_array}, {"is_nonempty_map", bifs.BIF_is_nonemptymap},
		{"is_not_empty", bifs.BIF_is_notempty}, {"is_not_map", bifs.BIF_is_notmap}, {"is_not_array", bifs.BIF_is_notarray},
		{"is_not_null", bifs.BIF_is_notnull}, {"is_null", bifs.BIF_is_null}, {"is_numeric", bifs.BIF_is_numeric},
		{"is_present", bifs.BIF_is_present}, {"is_string", bifs.BIF_is_string}, {"is_nan", bifs.BIF_is_nan},
	}
	for _, u := range unaries {
		f := u.f
		for k := 0; k < nk; k++ {
			enc.Encode(c08cellOf("U", u.name, []int{k},
				func(a []*mlrval.Mlrval) *mlrval.Mlrval { return f(a[0]) }, reps))
		}
	}
	// typeof: result text per kind
	for k := 0; k < nk; k++ {
		enc.Encode(c08cellOf("U", "typeof", []int{k},
			func(a []*mlrval.Mlrval) *mlrval.Mlrval { return bifs.BIF_typeof(a[0]) }, reps))
	}

	// variadic min/max: 0 and 3 arguments
	type vf struct {
		name string
		f    bifs.VariadicFunc
	}
	for _, v := range []vf{{"min", bifs.BIF_min_variadic}, {"max", bifs.BIF_max_variadic}} {
		f := v.f
		enc.Encode(c08cellOf("V", v.name, []int{}, func(a []*mlrval.Mlrval) *mlrval.Mlrval { return f(a) }, reps))
		ab := int(mlrval.MT_ABSENT)
		for k := 0; k < nk; k++ {
			for _, pat := range [][]int{{k, ab, ab}, {ab, k, ab}, {ab, ab, k}} {
				enc.Encode(c08cellOf("V", v.name, pat, func(a []*mlrval.Mlrval) *mlrval.Mlrval { return f(a) }, reps))
			}
		}
	}
}
