package main

// C03: drives real *mlrval.Mlrval values built by FromDeferredType through sequences of read operations.
//
//	mlrval-ops <default|S|A|O> [ofmt]     stdin: "<hex s1> <hex s2> <op>,<op>,..."   (ops: see c03Unary / c03Binary)
//	     stdout: "<z>:<hex>;<z>:<hex>;... | <hex printrepX> <validX> <typeX> <hex String(X)> | <same for Y>"
//	mlrval-methods <flag>                 stdin: hex(s) per line
//	     stdout: one line per exported method of *Mlrval callable with canned arguments:
//	     "<name> <called|skipped:reason> <n inputs> <n whose String() changed> <first changed input hex>"
import (
	"bufio"
	"encoding/hex"
	"fmt"
	"math"
	"reflect"
	"sort"
	"strings"

	"github.com/johnkerl/miller/v6/pkg/bifs"
	"github.com/johnkerl/miller/v6/pkg/mlrval"
)

func init() {
	subcommands["mlrval-ops"] = cmdMlrvalOps
	subcommands["mlrval-methods"] = cmdMlrvalMethods
}

type c03obs struct {
	z int64
	b string
}

func ob(b bool) c03obs {
	if b {
		return c03obs{1, ""}
	}
	return c03obs{0, ""}
}

var c03Unary = map[string]func(v *mlrval.Mlrval) c03obs{
	"Type":            func(v *mlrval.Mlrval) c03obs { return c03obs{int64(v.Type()), ""} },
	"IsLegit":         func(v *mlrval.Mlrval) c03obs { return ob(v.IsLegit()) },
	"IsErrorOrAbsent": func(v *mlrval.Mlrval) c03obs { return ob(v.IsErrorOrAbsent()) },
	"IsError":         func(v *mlrval.Mlrval) c03obs { return ob(v.IsError()) },
	"IsAbsent":        func(v *mlrval.Mlrval) c03obs { return ob(v.IsAbsent()) },
	"IsNull":          func(v *mlrval.Mlrval) c03obs { return ob(v.IsNull()) },
	"IsVoid":          func(v *mlrval.Mlrval) c03obs { return ob(v.IsVoid()) },
	"IsErrorOrVoid":   func(v *mlrval.Mlrval) c03obs { return ob(v.IsErrorOrVoid()) },
	"IsEmptyString":   func(v *mlrval.Mlrval) c03obs { return ob(v.IsEmptyString()) },
	"IsString":        func(v *mlrval.Mlrval) c03obs { return ob(v.IsString()) },
	"IsStringOrVoid":  func(v *mlrval.Mlrval) c03obs { return ob(v.IsStringOrVoid()) },
	"IsStringOrInt":   func(v *mlrval.Mlrval) c03obs { return ob(v.IsStringOrInt()) },
	"IsBytes":         func(v *mlrval.Mlrval) c03obs { return ob(v.IsBytes()) },
	"IsInt":           func(v *mlrval.Mlrval) c03obs { return ob(v.IsInt()) },
	"IsFloat":         func(v *mlrval.Mlrval) c03obs { return ob(v.IsFloat()) },
	"IsNumeric":       func(v *mlrval.Mlrval) c03obs { return ob(v.IsNumeric()) },
	"IsIntZero":       func(v *mlrval.Mlrval) c03obs { return ob(v.IsIntZero()) },
	"IsBool":          func(v *mlrval.Mlrval) c03obs { return ob(v.IsBool()) },
	"IsTrue":          func(v *mlrval.Mlrval) c03obs { return ob(v.IsTrue()) },
	"IsFalse":         func(v *mlrval.Mlrval) c03obs { return ob(v.IsFalse()) },
	"IsArray":         func(v *mlrval.Mlrval) c03obs { return ob(v.IsArray()) },
	"IsMap":           func(v *mlrval.Mlrval) c03obs { return ob(v.IsMap()) },
	"IsArrayOrMap":    func(v *mlrval.Mlrval) c03obs { return ob(v.IsArrayOrMap()) },
	"IsFunction":      func(v *mlrval.Mlrval) c03obs { return ob(v.IsFunction()) },
	"GetTypeBit":      func(v *mlrval.Mlrval) c03obs { return c03obs{int64(v.GetTypeBit()), ""} },
	"GetTypeName":     func(v *mlrval.Mlrval) c03obs { return c03obs{0, v.GetTypeName()} },
	"GetStringValue": func(v *mlrval.Mlrval) c03obs {
		s, ok := v.GetStringValue()
		return c03obs{ob(ok).z, s}
	},
	"GetIntValue": func(v *mlrval.Mlrval) c03obs {
		n, ok := v.GetIntValue()
		if !ok {
			return c03obs{0, "no"}
		}
		return c03obs{n, ""}
	},
	"GetFloatValue": func(v *mlrval.Mlrval) c03obs {
		f, ok := v.GetFloatValue()
		if !ok {
			return c03obs{0, "no"}
		}
		return c03obs{int64(math.Float64bits(f) & 0x7fffffffffffffff), signtag(f)}
	},
	"GetNumericToFloatValue": func(v *mlrval.Mlrval) c03obs {
		f, ok := v.GetNumericToFloatValue()
		if !ok {
			return c03obs{0, "no"}
		}
		return c03obs{int64(math.Float64bits(f) & 0x7fffffffffffffff), signtag(f)}
	},
	"GetBoolValue": func(v *mlrval.Mlrval) c03obs {
		b, ok := v.GetBoolValue()
		return c03obs{ob(b).z*2 + ob(ok).z, ""}
	},
	"GetArray": func(v *mlrval.Mlrval) c03obs { return ob(v.GetArray() != nil) },
	"GetMap":   func(v *mlrval.Mlrval) c03obs { return ob(v.GetMap() != nil) },
	"GetNumericNegativeGuarded": func(v *mlrval.Mlrval) c03obs {
		if !v.IsNumeric() {
			return c03obs{2, ""}
		}
		return ob(v.GetNumericNegativeorDie())
	},
	"String":            func(v *mlrval.Mlrval) c03obs { return c03obs{0, v.String()} },
	"OriginalString":    func(v *mlrval.Mlrval) c03obs { return c03obs{0, v.OriginalString()} },
	"StringMaybeQuoted": func(v *mlrval.Mlrval) c03obs { return c03obs{0, v.StringMaybeQuoted()} },
	"FormatAsJSON": func(v *mlrval.Mlrval) c03obs {
		s, err := v.FormatAsJSON(mlrval.JSON_SINGLE_LINE, false)
		if err != nil {
			return c03obs{1, ""}
		}
		return c03obs{0, s}
	},
	"StringifyValuesRecursively": func(v *mlrval.Mlrval) c03obs { v.StringifyValuesRecursively(); return c03obs{} },
	"FormatD":                    func(v *mlrval.Mlrval) c03obs { return c03fmt(v, "%d") },
	"FormatX":                    func(v *mlrval.Mlrval) c03obs { return c03fmt(v, "%08llx") },
	"FormatF":                    func(v *mlrval.Mlrval) c03obs { return c03fmt(v, "%.3lf") },
	"FormatS":                    func(v *mlrval.Mlrval) c03obs { return c03fmt(v, "[%s]") },
	// built-in functions (pkg/bifs) reading their argument
	"BifTypeof":   func(v *mlrval.Mlrval) c03obs { return c03obs{0, bifs.BIF_typeof(v).String()} },
	"BifStrlen":   func(v *mlrval.Mlrval) c03obs { bifs.BIF_strlen(v); return c03obs{} },
	"BifString":   func(v *mlrval.Mlrval) c03obs { return c03obs{0, bifs.BIF_string(v).String()} },
	"BifToupper":  func(v *mlrval.Mlrval) c03obs { bifs.BIF_toupper(v); return c03obs{} },
	"BifAbs":      func(v *mlrval.Mlrval) c03obs { bifs.BIF_abs(v); return c03obs{} },
	"BifSec2gmt":  func(v *mlrval.Mlrval) c03obs { bifs.BIF_sec2gmt_unary(v); return c03obs{} },
	"BifHexfmt":   func(v *mlrval.Mlrval) c03obs { bifs.BIF_hexfmt(v); return c03obs{} },
	"BifInt":      func(v *mlrval.Mlrval) c03obs { bifs.BIF_int(v); return c03obs{} },
	"BifFloat":    func(v *mlrval.Mlrval) c03obs { bifs.BIF_float(v); return c03obs{} },
	"BifBoolean":  func(v *mlrval.Mlrval) c03obs { bifs.BIF_boolean(v); return c03obs{} },
	"BifIsString": func(v *mlrval.Mlrval) c03obs { return c03obs{0, bifs.BIF_is_string(v).String()} },
	"BifFmtnum":   func(v *mlrval.Mlrval) c03obs { bifs.BIF_fmtnum(v, mlrval.FromString("%.2lf")); return c03obs{} },
	"BifFmtifnum": func(v *mlrval.Mlrval) c03obs { bifs.BIF_fmtifnum(v, mlrval.FromString("%.2lf")); return c03obs{} },
	"BifNegate":   func(v *mlrval.Mlrval) c03obs { bifs.BIF_minus_unary(v); return c03obs{} },
	"BifMd5":      func(v *mlrval.Mlrval) c03obs { bifs.BIF_md5(v); return c03obs{} },
	"BifTruncate": func(v *mlrval.Mlrval) c03obs { bifs.BIF_truncate(v, mlrval.FromInt(2)); return c03obs{} },
	"BifSplitax":  func(v *mlrval.Mlrval) c03obs { bifs.BIF_splitax(v, mlrval.FromString(".")); return c03obs{} },
	"BifSub": func(v *mlrval.Mlrval) c03obs {
		bifs.BIF_sub(v, mlrval.FromString("0"), mlrval.FromString("Z"))
		return c03obs{}
	},
	"BifStrptime":   func(v *mlrval.Mlrval) c03obs { bifs.BIF_strptime(v, mlrval.FromString("%Y-%m-%d")); return c03obs{} },
	"BifBitwiseNot": func(v *mlrval.Mlrval) c03obs { bifs.BIF_bitwise_not(v); return c03obs{} },
	"BifCeiling":    func(v *mlrval.Mlrval) c03obs { bifs.BIF_ceil(v); return c03obs{} },
}

func signtag(f float64) string {
	if math.Signbit(f) {
		return "-"
	}
	return "+"
}

func c03fmt(v *mlrval.Mlrval, f string) c03obs {
	fm, err := mlrval.GetFormatter(f)
	if err != nil {
		return c03obs{1, ""}
	}
	fm.Format(v)
	return c03obs{}
}

func cmpz(n int) c03obs { return c03obs{int64(n), ""} }

var c03Binary = map[string]func(a, b *mlrval.Mlrval) c03obs{
	"Equals":              func(a, b *mlrval.Mlrval) c03obs { return ob(mlrval.Equals(a, b)) },
	"GreaterThan":         func(a, b *mlrval.Mlrval) c03obs { return ob(mlrval.GreaterThan(a, b)) },
	"GreaterThanOrEquals": func(a, b *mlrval.Mlrval) c03obs { return ob(mlrval.GreaterThanOrEquals(a, b)) },
	"LessThan":            func(a, b *mlrval.Mlrval) c03obs { return ob(mlrval.LessThan(a, b)) },
	"LessThanOrEquals":    func(a, b *mlrval.Mlrval) c03obs { return ob(mlrval.LessThanOrEquals(a, b)) },
	"Cmp":                 func(a, b *mlrval.Mlrval) c03obs { return cmpz(mlrval.Cmp(a, b)) },
	"LexicalAscending":    func(a, b *mlrval.Mlrval) c03obs { return cmpz(mlrval.LexicalAscendingComparator(a, b)) },
	"LexicalDescending":   func(a, b *mlrval.Mlrval) c03obs { return cmpz(mlrval.LexicalDescendingComparator(a, b)) },
	"CaseFoldAscending":   func(a, b *mlrval.Mlrval) c03obs { mlrval.CaseFoldAscendingComparator(a, b); return c03obs{} },
	"CaseFoldDescending":  func(a, b *mlrval.Mlrval) c03obs { mlrval.CaseFoldDescendingComparator(a, b); return c03obs{} },
	"NumericAscending":    func(a, b *mlrval.Mlrval) c03obs { return cmpz(mlrval.NumericAscendingComparator(a, b)) },
	"NumericDescending":   func(a, b *mlrval.Mlrval) c03obs { return cmpz(mlrval.NumericDescendingComparator(a, b)) },
	"NaturalAscending":    func(a, b *mlrval.Mlrval) c03obs { mlrval.NaturalAscendingComparator(a, b); return c03obs{} },
	"NaturalDescending":   func(a, b *mlrval.Mlrval) c03obs { mlrval.NaturalDescendingComparator(a, b); return c03obs{} },
	"BifPlus":             func(a, b *mlrval.Mlrval) c03obs { bifs.BIF_plus_binary(a, b); return c03obs{} },
	"BifTimes":            func(a, b *mlrval.Mlrval) c03obs { bifs.BIF_times(a, b); return c03obs{} },
	"BifDivide":           func(a, b *mlrval.Mlrval) c03obs { bifs.BIF_divide(a, b); return c03obs{} },
	"BifDot":              func(a, b *mlrval.Mlrval) c03obs { return c03obs{0, bifs.BIF_dot(a, b).String()} },
	"BifLessThan":         func(a, b *mlrval.Mlrval) c03obs { bifs.BIF_less_than(a, b); return c03obs{} },
	"BifEquals":           func(a, b *mlrval.Mlrval) c03obs { bifs.BIF_equals(a, b); return c03obs{} },
	"BifMin":              func(a, b *mlrval.Mlrval) c03obs { bifs.BIF_min_binary(a, b); return c03obs{} },
	"BifMax":              func(a, b *mlrval.Mlrval) c03obs { bifs.BIF_max_binary(a, b); return c03obs{} },
	"BifBitwiseAnd":       func(a, b *mlrval.Mlrval) c03obs { bifs.BIF_bitwise_and(a, b); return c03obs{} },
	"BifCmp":              func(a, b *mlrval.Mlrval) c03obs { bifs.BIF_cmp(a, b); return c03obs{} },
	"BifStringMatches":    func(a, b *mlrval.Mlrval) c03obs { bifs.BIF_string_matches_regexp(a, b); return c03obs{} },
}

func c03SetFlag(args []string) {
	mode := "default"
	if len(args) > 0 {
		mode = args[0]
	}
	switch mode {
	case "S":
		mlrval.SetInferrerStringOnly()
	case "A":
		mlrval.SetInferrerIntAsFloat()
	case "O":
		mlrval.SetInferrerOctalAsInt()
	}
	if len(args) > 1 && args[1] != "" {
		if err := mlrval.SetFloatOutputFormat(args[1]); err != nil {
			panic(err)
		}
	}
}

func c03StateString(v *mlrval.Mlrval) string {
	p, valid, t := v.VerifState()
	vi := 0
	if valid {
		vi = 1
	}
	out := v.String() // what a non-JSON record writer emits
	return fmt.Sprintf("%s %d %d %s", hexOrDash(p), vi, t, hexOrDash(out))
}

func hexOrDash(s string) string {
	if s == "" {
		return "-"
	}
	return hex.EncodeToString([]byte(s))
}

func unhexOrDash(s string) (string, error) {
	if s == "-" {
		return "", nil
	}
	b, err := hex.DecodeString(s)
	return string(b), err
}

func cmdMlrvalOps(args []string, in *bufio.Scanner, out *bufio.Writer) {
	c03SetFlag(args)
	if len(args) > 2 && args[2] == "list" {
		var names []string
		for k := range c03Unary {
			names = append(names, "u:"+k)
		}
		for k := range c03Binary {
			names = append(names, "b:"+k)
		}
		sort.Strings(names)
		for _, n := range names {
			fmt.Fprintln(out, n)
		}
		return
	}
	for in.Scan() {
		parts := strings.Fields(in.Text())
		if len(parts) < 2 {
			fmt.Fprintln(out, "badline")
			continue
		}
		s1, e1 := unhexOrDash(parts[0])
		s2, e2 := unhexOrDash(parts[1])
		if e1 != nil || e2 != nil {
			fmt.Fprintln(out, "badhex")
			continue
		}
		x := mlrval.FromDeferredType(s1)
		y := mlrval.FromDeferredType(s2)
		var obs []string
		if len(parts) > 2 {
			for _, op := range strings.Split(parts[2], ",") {
				var o c03obs
				func() {
					defer func() {
						if r := recover(); r != nil {
							o = c03obs{-99, "panic"} // reported by the harness as an incidental observation (not a C03 matter)
						}
					}()
					switch {
					case strings.HasPrefix(op, "x"):
						o = c03Unary[op[1:]](x)
					case strings.HasPrefix(op, "y"):
						o = c03Unary[op[1:]](y)
					case strings.HasPrefix(op, "Cx"):
						x = x.Copy()
					case strings.HasPrefix(op, "Cy"):
						y = y.Copy()
					case strings.HasPrefix(op, "b"):
						o = c03Binary[op[1:]](x, y)
					case strings.HasPrefix(op, "r"):
						o = c03Binary[op[1:]](y, x)
					}
				}()
				obs = append(obs, fmt.Sprintf("%d:%s", o.z, hexOrDash(o.b)))
			}
		}
		fmt.Fprintf(out, "%s | %s | %s\n", strings.Join(obs, ";"), c03StateString(x), c03StateString(y))
	}
}

// ---- reflective sweep over every exported method of *Mlrval
var c03Deny = map[string]string{
	"GetNumericToFloatValueOrDie": "exits on non-numeric", "AssertNumeric": "exits on non-numeric",
	"GetNumericNegativeorDie": "exits on non-numeric (guarded variant is driven by mlrval-ops)",
	"AcquireStringValue":      "internal-coding-error exit unless typed", "AcquireIntValue": "exit unless typed",
	"AcquireFloatValue": "exit unless typed", "AcquireBoolValue": "exit unless typed", "AcquireBytesValue": "exit unless typed",
	"AcquireArrayValue": "exit unless typed", "AcquireMapValue": "exit unless typed", "ShowSizes": "prints",
	"VerifState": "harness export",
}

func cmdMlrvalMethods(args []string, in *bufio.Scanner, out *bufio.Writer) {
	c03SetFlag(args)
	var inputs []string
	for in.Scan() {
		s, err := unhexOrDash(strings.TrimSpace(in.Text()))
		if err == nil {
			inputs = append(inputs, s)
		}
	}
	mvT := reflect.TypeOf(&mlrval.Mlrval{})
	for i := 0; i < mvT.NumMethod(); i++ {
		m := mvT.Method(i)
		if why, no := c03Deny[m.Name]; no {
			fmt.Fprintf(out, "%s skipped:%s 0 0 -\n", m.Name, strings.ReplaceAll(why, " ", "_"))
			continue
		}
		changed, first, called, skipWhy := 0, "-", 0, ""
		for _, s := range inputs {
			v := mlrval.FromDeferredType(s)
			argv := []reflect.Value{reflect.ValueOf(v)}
			ok := true
			for a := 1; a < m.Type.NumIn(); a++ {
				at := m.Type.In(a)
				switch {
				case at.Kind() == reflect.String:
					argv = append(argv, reflect.ValueOf("verif").Convert(at))
				case at.Kind() == reflect.Bool:
					argv = append(argv, reflect.ValueOf(false))
				case at.Kind() == reflect.Int || at.Kind() == reflect.Int64 || at.Kind() == reflect.Int8:
					argv = append(argv, reflect.ValueOf(1).Convert(at))
				case at == mvT:
					argv = append(argv, reflect.ValueOf(mlrval.FromDeferredType("7")))
				case at.Kind() == reflect.Slice && at.Elem() == mvT:
					argv = append(argv, reflect.ValueOf([]*mlrval.Mlrval{mlrval.FromInt(1)}))
				default:
					ok = false
					skipWhy = "argument_type_" + strings.ReplaceAll(at.String(), " ", "")
				}
			}
			if !ok {
				break
			}
			func() {
				defer func() { _ = recover() }()
				m.Func.Call(argv)
			}()
			called++
			if v.String() != s {
				changed++
				if first == "-" {
					first = hexOrDash(s)
					if first == "-" {
						first = "(empty)"
					}
				}
			}
		}
		status := "called"
		if called == 0 && skipWhy != "" {
			status = "skipped:" + skipWhy
		}
		fmt.Fprintf(out, "%s %s %d %d %s\n", m.Name, status, called, changed, first)
	}
}
