package main

// mlr-batch: runs many independent mlr command lines inside ONE process (an mlr process start costs ~1 s of CPU in
// this tree).  Each job goes through the real climain.ParseCommandLine and stream.Stream: real record reader,
// ChainTransformer with one goroutine per verb, real record writer; only entrypoint.Main's process wrapper is replaced.
// Inputs come from files (or a prepipe); stdin jobs must use the mlr binary.
// Request, one JSON object per line: {"args": [hex words after "mlr"], "cwd": "dir or empty"}
// Response, one JSON object per line: {"status": 0|1, "out": hex(stdout bytes), "err": "message"}
// Global state touched by main flags (inferrer, --ofmt) is reset before every job.

import (
	"bufio"
	"bytes"
	"encoding/hex"
	"encoding/json"
	"fmt"
	"os"

	"github.com/johnkerl/miller/v6/pkg/climain"
	"github.com/johnkerl/miller/v6/pkg/mlrval"
	"github.com/johnkerl/miller/v6/pkg/stream"
)

func init() {
	subcommands["mlr-batch"] = cmdMlrBatch
}

type mlrBatchRequest struct {
	Args []string `json:"args"`
	Cwd  string   `json:"cwd"`
}

type mlrBatchResponse struct {
	Status int    `json:"status"`
	Out    string `json:"out"`
	Err    string `json:"err"`
}

type nopCloseBuffer struct{ bytes.Buffer }

func (b *nopCloseBuffer) Close() error { return nil }

func mlrBatchOne(req *mlrBatchRequest) (resp mlrBatchResponse) {
	defer func() {
		if r := recover(); r != nil {
			resp = mlrBatchResponse{Status: 2, Err: "panic: " + fmt.Sprint(r)}
		}
	}()
	args := []string{"mlr"}
	for _, w := range req.Args {
		b, err := hex.DecodeString(w)
		if err != nil {
			return mlrBatchResponse{Status: 3, Err: "badhex"}
		}
		args = append(args, string(b))
	}
	if req.Cwd != "" {
		if err := os.Chdir(req.Cwd); err != nil {
			return mlrBatchResponse{Status: 3, Err: err.Error()}
		}
	}
	mlrval.VerifResetGlobals()
	options, recordTransformers, err := climain.ParseCommandLine(args)
	if err != nil {
		return mlrBatchResponse{Status: 1, Err: err.Error()}
	}
	if options.DoInPlace {
		return mlrBatchResponse{Status: 3, Err: "in-place mode is not supported by mlr-batch"}
	}
	if options.FileNames != nil && len(options.FileNames) == 0 {
		return mlrBatchResponse{Status: 3, Err: "stdin jobs are not supported by mlr-batch"}
	}
	var out nopCloseBuffer
	err = stream.Stream(options.FileNames, options, recordTransformers, &out, false)
	if err != nil {
		return mlrBatchResponse{Status: 1, Out: hex.EncodeToString(out.Bytes()), Err: err.Error()}
	}
	return mlrBatchResponse{Status: 0, Out: hex.EncodeToString(out.Bytes())}
}

func cmdMlrBatch(args []string, in *bufio.Scanner, out *bufio.Writer) {
	for in.Scan() {
		var req mlrBatchRequest
		if err := json.Unmarshal(in.Bytes(), &req); err != nil {
			fmt.Fprintln(out, `{"status":3,"out":"","err":"badjson"}`)
			out.Flush()
			continue
		}
		resp := mlrBatchOne(&req)
		b, _ := json.Marshal(resp)
		out.Write(b)
		out.WriteByte('\n')
		out.Flush() // a later job may kill the process (os.Exit in a verb, panic in a goroutine): keep what is done
	}
}
