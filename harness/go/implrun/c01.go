package main

// C01 driver: calls the real record writers on records with arbitrary bytes
// (JSON input to mlr cannot carry invalid UTF-8), and the TSV field codec.
//
// c01-write: one JSON object per line
//   {"args": ["--otsv", "--ors", "crlf", ...], "recs": [[["hexkey","hexvalue"], ...], ...]}
// ->
//   {"out": "<hex of the bytes written>", "err": "<message or empty>"}
// Main-flags are parsed with cli.FLAG_TABLE.Parse and finalised with cli.FinalizeWriterOptions, as climain does.
//
// c01-tsv-codec: hex per line -> "<hex encode> <hex decode>"

import (
	"bufio"
	"bytes"
	"encoding/hex"
	"encoding/json"
	"fmt"
	"os"
	"time"

	"github.com/johnkerl/miller/v6/pkg/cli"
	"github.com/johnkerl/miller/v6/pkg/input"
	"github.com/johnkerl/miller/v6/pkg/lib"
	"github.com/johnkerl/miller/v6/pkg/mlrval"
	"github.com/johnkerl/miller/v6/pkg/output"
	"github.com/johnkerl/miller/v6/pkg/types"
)

func init() {
	subcommands["c01-write"] = cmdC01Write
	subcommands["c01-tsv-codec"] = cmdC01TSVCodec
	subcommands["c01-read"] = cmdC01Read
	subcommands["c01-width"] = cmdC01Width
}

// c01-width: hex per line -> lib.DisplayWidth of the string (the width the XTAB/PPRINT writers align on)
func cmdC01Width(args []string, in *bufio.Scanner, out *bufio.Writer) {
	for in.Scan() {
		b, err := hex.DecodeString(in.Text())
		if err != nil {
			fmt.Fprintln(out, "badhex")
			continue
		}
		fmt.Fprintln(out, lib.DisplayWidth(string(b)))
	}
}

// c01-read: {"args": ["--icsv", ...], "text": "<hex>"} -> {"recs": [[["hexkey","hexvalue"],...],...], "err": ""}
// The real record reader (input.Create) is run on a scratch file holding the text; an error on the reader's
// error channel (what makes mlr exit 1) is reported in "err".
type c01ReadReq struct {
	Args []string `json:"args"`
	Text string   `json:"text"`
}

type c01ReadResp struct {
	Recs [][][2]string `json:"recs"`
	Err  string        `json:"err"`
}

func c01ReadOne(req *c01ReadReq, scratch string) (resp c01ReadResp) {
	defer func() {
		if r := recover(); r != nil {
			resp.Err = fmt.Sprintf("panic: %v", r)
		}
	}()
	resp.Recs = [][][2]string{}
	options := cli.DefaultOptions()
	args := req.Args
	argc := len(args)
	for argi := 0; argi < argc; {
		handled, err := cli.FLAG_TABLE.Parse(args, argc, &argi, options)
		if err != nil {
			resp.Err = "flag: " + err.Error()
			return
		}
		if !handled {
			resp.Err = "flag: not a main-flag: " + args[argi]
			return
		}
	}
	if err := cli.FinalizeReaderOptions(&options.ReaderOptions); err != nil {
		resp.Err = "finalize: " + err.Error()
		return
	}
	text, err := hex.DecodeString(req.Text)
	if err != nil {
		resp.Err = "badhex"
		return
	}
	if err := os.WriteFile(scratch, text, 0600); err != nil {
		resp.Err = "scratch: " + err.Error()
		return
	}
	reader, err := input.Create(&options.ReaderOptions, options.ReaderOptions.RecordsPerBatch)
	if err != nil {
		resp.Err = "create: " + err.Error()
		return
	}
	readerChannel := make(chan []*types.RecordAndContext, 2)
	errorChannel := make(chan error, 1)
	doneChannel := make(chan bool, 1)
	ctx := types.NewContext()
	go func() {
		defer func() {
			if r := recover(); r != nil {
				errorChannel <- fmt.Errorf("panic: %v", r)
			}
		}()
		reader.Read([]string{scratch}, *ctx, readerChannel, errorChannel, doneChannel)
	}()
	timeout := time.After(20 * time.Second)
	for {
		select {
		case e := <-errorChannel:
			resp.Err = "read: " + e.Error()
			return
		case <-timeout:
			resp.Err = "hang"
			return
		case batch := <-readerChannel:
			for _, rac := range batch {
				if rac.EndOfStream {
					select {
					case e := <-errorChannel:
						resp.Err = "read: " + e.Error()
					default:
					}
					return
				}
				if rac.Record != nil {
					rec := [][2]string{}
					for pe := rac.Record.Head; pe != nil; pe = pe.Next {
						rec = append(rec, [2]string{hex.EncodeToString([]byte(pe.Key)), hex.EncodeToString([]byte(pe.Value.String()))})
					}
					resp.Recs = append(resp.Recs, rec)
				}
			}
		}
	}
}

func cmdC01Read(args []string, in *bufio.Scanner, out *bufio.Writer) {
	dir, err := os.MkdirTemp("", "verif-c01-")
	if err != nil {
		fmt.Fprintln(os.Stderr, err)
		os.Exit(1)
	}
	defer os.RemoveAll(dir)
	scratch := dir + "/in"
	for in.Scan() {
		var req c01ReadReq
		var resp c01ReadResp
		if err := json.Unmarshal(in.Bytes(), &req); err != nil {
			resp.Err = "badjson: " + err.Error()
		} else {
			resp = c01ReadOne(&req, scratch)
		}
		b, _ := json.Marshal(resp)
		out.Write(b)
		out.WriteByte('\n')
	}
}

type c01WriteReq struct {
	Args []string      `json:"args"`
	Recs [][][2]string `json:"recs"`
}

type c01WriteResp struct {
	Out string `json:"out"`
	Err string `json:"err"`
}

func c01WriteOne(req *c01WriteReq) (resp c01WriteResp) {
	defer func() {
		if r := recover(); r != nil {
			resp.Err = fmt.Sprintf("panic: %v", r)
		}
	}()
	options := cli.DefaultOptions()
	args := req.Args
	argc := len(args)
	for argi := 0; argi < argc; {
		handled, err := cli.FLAG_TABLE.Parse(args, argc, &argi, options)
		if err != nil {
			resp.Err = "flag: " + err.Error()
			return
		}
		if !handled {
			resp.Err = "flag: not a main-flag: " + args[argi]
			return
		}
	}
	if err := cli.FinalizeWriterOptions(&options.WriterOptions); err != nil {
		resp.Err = "finalize: " + err.Error()
		return
	}
	writer, err := output.Create(&options.WriterOptions)
	if err != nil {
		resp.Err = "create: " + err.Error()
		return
	}
	var buf bytes.Buffer
	bw := bufio.NewWriter(&buf)
	ctx := types.NewContext()
	for _, rec := range req.Recs {
		m := mlrval.NewMlrmapAsRecord()
		for _, kv := range rec {
			k, e1 := hex.DecodeString(kv[0])
			v, e2 := hex.DecodeString(kv[1])
			if e1 != nil || e2 != nil {
				resp.Err = "badhex"
				return
			}
			m.PutReference(string(k), mlrval.FromString(string(v)))
		}
		if err := writer.Write(m, ctx, bw, false); err != nil {
			bw.Flush()
			resp.Out = hex.EncodeToString(buf.Bytes())
			resp.Err = "write: " + err.Error()
			return
		}
	}
	if err := writer.Write(nil, ctx, bw, false); err != nil {
		resp.Err = "write-end: " + err.Error()
	}
	bw.Flush()
	resp.Out = hex.EncodeToString(buf.Bytes())
	return
}

func cmdC01Write(args []string, in *bufio.Scanner, out *bufio.Writer) {
	for in.Scan() {
		var req c01WriteReq
		var resp c01WriteResp
		if err := json.Unmarshal(in.Bytes(), &req); err != nil {
			resp.Err = "badjson: " + err.Error()
		} else {
			resp = c01WriteOne(&req)
		}
		b, _ := json.Marshal(resp)
		out.Write(b)
		out.WriteByte('\n')
	}
}

func cmdC01TSVCodec(args []string, in *bufio.Scanner, out *bufio.Writer) {
	for in.Scan() {
		b, err := hex.DecodeString(in.Text())
		if err != nil {
			fmt.Fprintln(out, "badhex")
			continue
		}
		fmt.Fprintf(out, "%s %s\n", hex.EncodeToString([]byte(lib.TSVEncodeField(string(b)))),
			hex.EncodeToString([]byte(lib.TSVDecodeField(string(b)))))
	}
}
