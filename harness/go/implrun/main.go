// implrun: drives Miller internals the command line cannot reach.
// Copied into a scratch copy of /repo as cmd/verif-implrun/ and built there.
// Protocol: one request per stdin line, one response per stdout line.
// Strings that may hold arbitrary bytes travel hex-encoded.
package main

import (
	"bufio"
	"fmt"
	"os"
)

type subcommand func(args []string, in *bufio.Scanner, out *bufio.Writer)

var subcommands = map[string]subcommand{}

func main() {
	if len(os.Args) < 2 {
		fmt.Fprintln(os.Stderr, "usage: implrun <subcommand> [args]")
		os.Exit(2)
	}
	f, ok := subcommands[os.Args[1]]
	if !ok {
		fmt.Fprintf(os.Stderr, "implrun: unknown subcommand %s\n", os.Args[1])
		os.Exit(2)
	}
	in := bufio.NewScanner(os.Stdin)
	in.Buffer(make([]byte, 1<<20), 1<<28)
	out := bufio.NewWriterSize(os.Stdout, 1<<20)
	defer out.Flush()
	f(os.Args[2:], in, out)
}
