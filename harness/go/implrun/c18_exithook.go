//go:build c18exit

package main

// Compiled only into the C18 instrumented build (harness/py/checks/c18.py: build_instrumented): in that scratch
// copy every `os.Exit(` of Miller's own packages is textually redirected to pkg/verifexit.Exit, whose hook lets the
// in-process drivers observe "would exit with code N" without paying a process start (1-2 s here: the generated
// DSL parser tables are initialised at start-up) per case.
//
//   implrun mlr-inproc   requests on stdin, one JSON object per line:
//        {"id":7,"args":["--icsv","--ojson","cat"],"stdin":"<hex>","timeout_ms":10000}
//        an argument "@FILE@" is replaced by the path of a temp file holding the stdin bytes (then stdin is empty)
//     one JSON response per line:
//        {"id":7,"class":"ok|exit|panic|hang|runaway","code":0,"stderr":"<hex tail>","out_len":123,"out":"<hex head>"}
//     entrypoint.Main() runs in its own goroutine with os.Args/os.Stdin/os.Stdout/os.Stderr pointed at per-case
//     files/pipes.  A hang (or > 200 MB of output) ends the worker after the response (exit 3): the parent restarts
//     it for the remaining requests.  A panic on a goroutine other than Main's kills the worker with the Go trace on
//     stderr, exactly as it kills mlr; the parent attributes it to the request in flight.

import (
	"bufio"
	"encoding/hex"
	"encoding/json"
	"fmt"
	"os"
	"runtime/debug"
	"sync/atomic"
	"syscall"
	"time"

	"github.com/johnkerl/miller/v6/pkg/entrypoint"
	"github.com/johnkerl/miller/v6/pkg/verifexit"
)

var c18ExitEvents = make(chan int, 64)
var c18ParkExits int32

func init() {
	c18ExitHookInstalled = true
	subcommands["mlr-inproc"] = cmdMlrInproc
	verifexit.Hook = func(code int) {
		if atomic.LoadInt32(&c18ParkExits) == 1 {
			// in-process mlr: report the exit and park this goroutine for ever (the process lives on)
			c18ExitEvents <- code
			select {}
		}
		if c18ExitTrap {
			panic(c18Exit{code})
		}
	}
}

type c18Req struct {
	Id        int      `json:"id"`
	Args      []string `json:"args"`
	Stdin     string   `json:"stdin"`
	TimeoutMs int      `json:"timeout_ms"`
}

type c18Resp struct {
	Id     int    `json:"id"`
	Class  string `json:"class"`
	Code   int    `json:"code"`
	Stderr string `json:"stderr"`
	OutLen int64  `json:"out_len"`
	Out    string `json:"out"`
}

func cmdMlrInproc(args []string, in *bufio.Scanner, out *bufio.Writer) {
	lim := syscall.Rlimit{Cur: 8 << 30, Max: 8 << 30}
	_ = syscall.Setrlimit(syscall.RLIMIT_AS, &lim)
	realOut := os.Stdout
	atomic.StoreInt32(&c18ParkExits, 1)
	os.Setenv("MLRRC", "__none__")
	tmpdir, err := os.MkdirTemp("", "c18-inproc-*")
	if err != nil {
		fmt.Fprintln(os.Stderr, "verif: mkdtemp:", err)
		os.Exit(4)
	}
	defer os.RemoveAll(tmpdir)
	respond := func(r c18Resp) {
		b, _ := json.Marshal(r)
		realOut.Write(append(b, '\n'))
	}
	devnull, _ := os.Open("/dev/null")
	n := 0
	for in.Scan() {
		var req c18Req
		if err := json.Unmarshal(in.Bytes(), &req); err != nil {
			continue
		}
		n++
		if req.TimeoutMs <= 0 {
			req.TimeoutMs = 10000
		}
		data, _ := hex.DecodeString(req.Stdin)
		inPath := fmt.Sprintf("%s/in-%d", tmpdir, n)
		os.WriteFile(inPath, data, 0o600)
		argv := []string{"mlr"}
		usesFile := false
		for _, a := range req.Args {
			if a == "@FILE@" {
				a = inPath
				usesFile = true
			}
			argv = append(argv, a)
		}
		var stdin *os.File
		if usesFile {
			stdin, _ = os.Open("/dev/null")
		} else {
			stdin, _ = os.Open(inPath)
		}
		errFile, _ := os.CreateTemp(tmpdir, "err-*")
		pr, pw, _ := os.Pipe()
		var outLen int64
		head := make([]byte, 0, 2048)
		drained := make(chan bool, 1)
		go func() {
			buf := make([]byte, 1<<16)
			for {
				k, err := pr.Read(buf)
				if k > 0 {
					if len(head) < 2048 {
						m := 2048 - len(head)
						if m > k {
							m = k
						}
						head = append(head, buf[:m]...)
					}
					atomic.AddInt64(&outLen, int64(k))
				}
				if err != nil {
					drained <- true
					return
				}
			}
		}()
		os.Args = argv
		os.Stdin, os.Stdout, os.Stderr = stdin, pw, errFile
		done := make(chan string, 1)
		go func() {
			defer func() {
				if r := recover(); r != nil {
					done <- "panic: " + fmt.Sprint(r) + "\n" + string(debug.Stack())
				}
			}()
			entrypoint.Main()
			done <- ""
		}()
		resp := c18Resp{Id: req.Id}
		fatal := false
		deadline := time.After(time.Duration(req.TimeoutMs) * time.Millisecond)
		tick := time.NewTicker(50 * time.Millisecond)
	wait:
		for {
			select {
			case msg := <-done:
				if msg == "" {
					resp.Class, resp.Code = "ok", 0
				} else {
					resp.Class, resp.Code = "panic", 2
					fmt.Fprintln(errFile, msg)
				}
				break wait
			case code := <-c18ExitEvents:
				resp.Class, resp.Code = "exit", code
				break wait
			case <-deadline:
				resp.Class, fatal = "hang", true
				break wait
			case <-tick.C:
				if atomic.LoadInt64(&outLen) > 200<<20 {
					resp.Class, fatal = "runaway", true
					break wait
				}
			}
		}
		tick.Stop()
		os.Stdin, os.Stdout, os.Stderr = devnull, realOut, c18RealStderr
		pw.Close()
		if !fatal {
			select {
			case <-drained:
			case <-time.After(2 * time.Second):
			}
		}
		if stdin != nil {
			stdin.Close()
		}
		resp.OutLen = atomic.LoadInt64(&outLen)
		resp.Out = hex.EncodeToString(head)
		if st, err := errFile.Stat(); err == nil {
			sz := st.Size()
			off := int64(0)
			if sz > 1500 {
				off = sz - 1500
			}
			b := make([]byte, sz-off)
			errFile.ReadAt(b, off)
			resp.Stderr = hex.EncodeToString(b)
		}
		errFile.Close()
		os.Remove(errFile.Name())
		os.Remove(inPath)
		// anything the exit-parked run still holds refers to its own files; the next case gets fresh ones
		if resp.Class == "exit" && resp.Code == 0 {
			resp.Class = "ok"
		}
		respond(resp)
		if fatal {
			os.RemoveAll(tmpdir)
			os.Exit(3)
		}
	}
}
