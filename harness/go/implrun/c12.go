package main

// verbrun: runs one verb (constructed by the verb's own ParseCLIFunc from command-line words) over a list of
// records inside this process; used by the C12 and C13 checks for volume (an mlr process start costs ~1 s of CPU).
// Request, one JSON object per line:
//   {"main": [hex words of main-flags, e.g. --ifs 1f], "args": [hex words: verb name and its arguments],
//    "recs": [[[hex key, hex value], ...], ...]}
// Response: {"ok":true,"recs":[...]} | {"ok":false,"err":"..."} | {"ok":false,"panic":"..."}

import (
	"bufio"
	"encoding/hex"
	"encoding/json"
	"fmt"

	"github.com/johnkerl/miller/v6/pkg/cli"
	"github.com/johnkerl/miller/v6/pkg/mlrval"
	"github.com/johnkerl/miller/v6/pkg/transformers"
	"github.com/johnkerl/miller/v6/pkg/types"
)

func init() {
	subcommands["verbrun"] = cmdVerbRun
}

type verbRunRequest struct {
	Main []string      `json:"main"`
	Args []string      `json:"args"`
	Recs [][][2]string `json:"recs"`
}

type verbRunResponse struct {
	Ok    bool          `json:"ok"`
	Err   string        `json:"err,omitempty"`
	Panic string        `json:"panic,omitempty"`
	Recs  [][][2]string `json:"recs"`
}

func unhexWords(ws []string) ([]string, error) {
	out := make([]string, len(ws))
	for i, w := range ws {
		b, err := hex.DecodeString(w)
		if err != nil {
			return nil, err
		}
		out[i] = string(b)
	}
	return out, nil
}

func verbRunOne(req *verbRunRequest) (resp verbRunResponse) {
	defer func() {
		if r := recover(); r != nil {
			resp = verbRunResponse{Ok: false, Panic: fmt.Sprint(r)}
		}
	}()
	mainWords, err := unhexWords(req.Main)
	if err != nil {
		return verbRunResponse{Err: "badhex"}
	}
	args, err := unhexWords(req.Args)
	if err != nil || len(args) == 0 {
		return verbRunResponse{Err: "badhex"}
	}

	options := cli.DefaultOptions()
	for i := 0; i < len(mainWords); {
		handled, err := cli.FLAG_TABLE.Parse(mainWords, len(mainWords), &i, options)
		if err != nil {
			return verbRunResponse{Err: err.Error()}
		}
		if !handled {
			return verbRunResponse{Err: "main flag not recognized: " + mainWords[i]}
		}
	}
	if err := cli.FinalizeReaderOptions(&options.ReaderOptions); err != nil {
		return verbRunResponse{Err: err.Error()}
	}

	// "then" chains: each stage constructed by its own ParseCLIFunc; stages run one after the other
	stages := [][]string{{}}
	for _, w := range args {
		if w == "then" {
			stages = append(stages, []string{})
		} else {
			stages[len(stages)-1] = append(stages[len(stages)-1], w)
		}
	}
	chain := []transformers.RecordTransformer{}
	for _, st := range stages {
		if len(st) == 0 {
			return verbRunResponse{Err: "empty stage"}
		}
		setup := transformers.LookUp(st[0])
		if setup == nil {
			return verbRunResponse{Err: "no such verb"}
		}
		argi := 0
		transformer, err := setup.ParseCLIFunc(&argi, len(st), st, options, true)
		if err != nil {
			return verbRunResponse{Err: err.Error()}
		}
		if transformer == nil {
			return verbRunResponse{Err: "verb construction returned nil"}
		}
		if argi != len(st) {
			return verbRunResponse{Err: fmt.Sprintf("verb consumed %d of %d words", argi, len(st))}
		}
		chain = append(chain, transformer)
	}

	context := types.NewContext()
	inputs := []*types.RecordAndContext{}
	for _, r := range req.Recs {
		rec := mlrval.NewMlrmapAsRecord()
		for _, kv := range r {
			k, err1 := hex.DecodeString(kv[0])
			v, err2 := hex.DecodeString(kv[1])
			if err1 != nil || err2 != nil {
				return verbRunResponse{Err: "badhex"}
			}
			rec.PutReference(string(k), mlrval.FromDeferredType(string(v)))
		}
		context.NR++
		context.FNR++
		inputs = append(inputs, types.NewRecordAndContext(rec, context))
	}
	inputs = append(inputs, types.NewEndOfStreamMarker(context))

	outputs := inputs
	for _, transformer := range chain {
		inDone := make(chan bool, 1)
		outDone := make(chan bool, 1)
		stageOut := []*types.RecordAndContext{}
		for _, rc := range outputs {
			if !rc.EndOfStream && rc.Record == nil {
				continue
			}
			if err := transformer.Transform(rc, &stageOut, inDone, outDone); err != nil {
				return verbRunResponse{Err: err.Error()}
			}
		}
		outputs = stageOut
	}

	resp = verbRunResponse{Ok: true, Recs: [][][2]string{}}
	for _, o := range outputs {
		if o.EndOfStream || o.Record == nil {
			continue
		}
		r := [][2]string{}
		for pe := o.Record.Head; pe != nil; pe = pe.Next {
			val := ""
			if pe.Value != nil {
				val = pe.Value.String()
			} else {
				val = "\x00<nil>"
			}
			r = append(r, [2]string{hex.EncodeToString([]byte(pe.Key)), hex.EncodeToString([]byte(val))})
		}
		resp.Recs = append(resp.Recs, r)
	}
	return resp
}

func cmdVerbRun(args []string, in *bufio.Scanner, out *bufio.Writer) {
	for in.Scan() {
		var req verbRunRequest
		if err := json.Unmarshal(in.Bytes(), &req); err != nil {
			fmt.Fprintln(out, `{"ok":false,"err":"bad request"}`)
			continue
		}
		resp := verbRunOne(&req)
		b, _ := json.Marshal(resp)
		out.Write(b)
		out.WriteString("\n")
	}
}
