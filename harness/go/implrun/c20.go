package main

// lru-ops: drive the REAL output-handler manager (pkg/output/file_output_handlers.go) with an op history.
//
// One JSON request per stdin line:
//   {"dir": "/tmp/...", "mode": "write"|"append"|"pipe", "fmt": "csv", "ops": [[target, 0, [[k,v],...]], [target, 1, "text"], ...]}
// target is a bare file name; it is written as <dir>/<target>.  In pipe mode the command is
//   cat > '<dir>/<target>.part' && mv '<dir>/<target>.part' '<dir>/<target>'
// so that the caller can wait for <dir>/<target> to appear (the manager does not wait for its children).
// Response per request: {"ok": true, "errors": [...]}.

import (
	"bufio"
	"encoding/json"
	"fmt"
	"path/filepath"

	"github.com/johnkerl/miller/v6/pkg/cli"
	"github.com/johnkerl/miller/v6/pkg/mlrval"
	"github.com/johnkerl/miller/v6/pkg/output"
	"github.com/johnkerl/miller/v6/pkg/types"
)

func init() {
	subcommands["lru-ops"] = cmdLruOps
}

type lruRequest struct {
	Dir  string            `json:"dir"`
	Mode string            `json:"mode"`
	Fmt  string            `json:"fmt"`
	Ops  []json.RawMessage `json:"ops"`
}

func cmdLruOps(args []string, in *bufio.Scanner, out *bufio.Writer) {
	for in.Scan() {
		var req lruRequest
		if err := json.Unmarshal(in.Bytes(), &req); err != nil {
			fmt.Fprintf(out, "{\"ok\": false, \"errors\": [%q]}\n", err.Error())
			continue
		}
		errs := runLruOps(&req)
		resp, _ := json.Marshal(map[string]interface{}{"ok": len(errs) == 0, "errors": errs})
		out.Write(resp)
		out.WriteString("\n")
		out.Flush()
	}
}

func runLruOps(req *lruRequest) []string {
	errs := []string{}
	wopts := cli.DefaultWriterOptions()
	wopts.OutputFileFormat = req.Fmt
	if err := cli.FinalizeWriterOptions(&wopts); err != nil {
		return []string{err.Error()}
	}
	wopts.FlushOnEveryRecord = false

	var mgr output.OutputHandlerManager
	switch req.Mode {
	case "write":
		mgr = output.NewFileOutputHandlerManager(&wopts, false)
	case "append":
		mgr = output.NewFileOutputHandlerManager(&wopts, true)
	case "pipe":
		mgr = output.NewPipeWriteHandlerManager(&wopts)
	default:
		return []string{"bad mode"}
	}

	context := types.NewContext()
	for _, raw := range req.Ops {
		var parts []json.RawMessage
		if err := json.Unmarshal(raw, &parts); err != nil || len(parts) != 3 {
			errs = append(errs, "bad op")
			break
		}
		var target string
		var kind int
		json.Unmarshal(parts[0], &target)
		json.Unmarshal(parts[1], &kind)
		name := filepath.Join(req.Dir, target)
		if req.Mode == "pipe" {
			name = fmt.Sprintf("cat > '%s.part' && mv '%s.part' '%s'", name, name, name)
		}
		if kind == 0 {
			var kvs [][]string
			if err := json.Unmarshal(parts[2], &kvs); err != nil {
				errs = append(errs, "bad record")
				break
			}
			rec := mlrval.NewMlrmapAsRecord()
			for _, kv := range kvs {
				rec.PutReference(kv[0], mlrval.FromString(kv[1]))
			}
			context.NR++
			if err := mgr.WriteRecordAndContext(types.NewRecordAndContext(rec, context), name); err != nil {
				errs = append(errs, err.Error())
				break
			}
		} else {
			var s string
			json.Unmarshal(parts[2], &s)
			if err := mgr.WriteString(s, name); err != nil {
				errs = append(errs, err.Error())
				break
			}
		}
	}
	for _, err := range mgr.Close() {
		errs = append(errs, "close: "+err.Error())
	}
	return errs
}
