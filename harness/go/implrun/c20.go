package main

// lru-ops: drive the REAL output-handler manager (pkg/output/file_output_handlers.go) with an op history.
//
// One JSON request per stdin line:
//   {"dir": "/tmp/...", "mode": "write"|"append"|"pipe", "fmt": "csv", "ops": [[target, 0, [[k,v],...]], [target, 1, "text"], ...]}
// target is a bare file name; it is written as <dir>/<target>.  In pipe mode the command is
//   cat > '<dir>/<target>.part' && mv '<dir>/<target>.part' '<dir>/<target>'
// so that the caller can wait for <dir>/<target> to appear (the manager does not wait for its children).
// Response per request: {"ok": true, "errors": [...]}.

import (
	"bufio"
	"encoding/json"
	"fmt"
	"os"
	"path/filepath"
	"strings"

	"github.com/johnkerl/miller/v6/pkg/cli"
	"github.com/johnkerl/miller/v6/pkg/mlrval"
	"github.com/johnkerl/miller/v6/pkg/output"
	"github.com/johnkerl/miller/v6/pkg/types"
)

func init() {
	subcommands["lru-ops"] = cmdLruOps
}

type lruRequest struct {
	Dir  string            `json:"dir"`
	Mode string            `json:"mode"`
	Fmt  string            `json:"fmt"`
	Ops  []json.RawMessage `json:"ops"`
	// writer options (all optional): headerless, barred, right, nojlistwrap, nojvstack, mdaligned, quoteall, crlf
	Opts map[string]bool `json:"opts"`
}

func cmdLruOps(args []string, in *bufio.Scanner, out *bufio.Writer) {
	for in.Scan() {
		var req lruRequest
		if err := json.Unmarshal(in.Bytes(), &req); err != nil {
			fmt.Fprintf(out, "{\"ok\": false, \"errors\": [%q]}\n", err.Error())
			continue
		}
		errs, openMax, openEnd := runLruOps(&req)
		resp, _ := json.Marshal(map[string]interface{}{"ok": len(errs) == 0, "errors": errs, "open_max": openMax, "open_end": openEnd})
		out.Write(resp)
		out.WriteString("\n")
		out.Flush()
	}
}

// countOpenFiles: number of descriptors of this process that refer to files under dir (/proc/self/fd links); -1 if unreadable.
// Only the request's own scratch directory is counted, so descriptors of earlier requests (pipes still closing), of the
// runtime or of the driver itself do not matter.
func countOpenFiles(dir string) int {
	f, err := os.Open("/proc/self/fd")
	if err != nil {
		return -1
	}
	defer f.Close()
	names, err := f.Readdirnames(-1)
	if err != nil {
		return -1
	}
	n := 0
	prefix := filepath.Clean(dir) + "/"
	for _, name := range names {
		target, err := os.Readlink("/proc/self/fd/" + name)
		if err == nil && strings.HasPrefix(target, prefix) {
			n++
		}
	}
	return n
}

// returns the errors, and the number of files the manager holds open: the maximum seen after any op and the number
// just before Close() (both relative to the count before the manager was created)
func runLruOps(req *lruRequest) ([]string, int, int) {
	errs := []string{}
	base := 0
	openMax := 0
	wopts := cli.DefaultWriterOptions()
	wopts.OutputFileFormat = req.Fmt
	if err := cli.FinalizeWriterOptions(&wopts); err != nil {
		return []string{err.Error()}, 0, 0
	}
	if req.Opts != nil {
		if req.Opts["crlf"] {
			wopts.ORS = "\r\n"
		}
		wopts.HeaderlessOutput = req.Opts["headerless"]
		wopts.BarredPprintOutput = req.Opts["barred"]
		wopts.RightAlignedPPRINTOutput = req.Opts["right"]
		wopts.RightAlignedXTABOutput = req.Opts["right"]
		wopts.MarkdownAlignedOutput = req.Opts["mdaligned"]
		wopts.CSVQuoteAll = req.Opts["quoteall"]
		if req.Fmt == "json" {
			wopts.WrapJSONOutputInOuterList = !req.Opts["nojlistwrap"]
			wopts.JSONOutputMultiline = !req.Opts["nojvstack"]
		}
	}
	wopts.FlushOnEveryRecord = false

	var mgr output.OutputHandlerManager
	switch req.Mode {
	case "write":
		mgr = output.NewFileOutputHandlerManager(&wopts, false)
	case "append":
		mgr = output.NewFileOutputHandlerManager(&wopts, true)
	case "pipe":
		mgr = output.NewPipeWriteHandlerManager(&wopts)
	default:
		return []string{"bad mode"}, 0, 0
	}

	context := types.NewContext()
	for _, raw := range req.Ops {
		var parts []json.RawMessage
		if err := json.Unmarshal(raw, &parts); err != nil || len(parts) != 3 {
			errs = append(errs, "bad op")
			break
		}
		var target string
		var kind int
		json.Unmarshal(parts[0], &target)
		json.Unmarshal(parts[1], &kind)
		name := filepath.Join(req.Dir, target)
		if req.Mode == "pipe" {
			name = fmt.Sprintf("cat > '%s.part' && mv '%s.part' '%s'", name, name, name)
		}
		if kind == 0 {
			var kvs [][]string
			if err := json.Unmarshal(parts[2], &kvs); err != nil {
				errs = append(errs, "bad record")
				break
			}
			rec := mlrval.NewMlrmapAsRecord()
			for _, kv := range kvs {
				rec.PutReference(kv[0], mlrval.FromString(kv[1]))
			}
			context.NR++
			if err := mgr.WriteRecordAndContext(types.NewRecordAndContext(rec, context), name); err != nil {
				errs = append(errs, err.Error())
				break
			}
		} else {
			var s string
			json.Unmarshal(parts[2], &s)
			if err := mgr.WriteString(s, name); err != nil {
				errs = append(errs, err.Error())
				break
			}
		}
		if n := countOpenFiles(req.Dir) - base; n > openMax {
			openMax = n
		}
	}
	openEnd := countOpenFiles(req.Dir) - base
	for _, err := range mgr.Close() {
		errs = append(errs, "close: "+err.Error())
	}
	return errs, openMax, openEnd
}
