package main

import (
	"bufio"
	"encoding/hex"
	"fmt"
	"math"

	"github.com/johnkerl/miller/v6/pkg/mlrval"
	"github.com/johnkerl/miller/v6/pkg/scan"
)

func init() {
	subcommands["scan"] = cmdScan
	subcommands["infer"] = cmdInfer
	subcommands["digit-tables"] = cmdDigitTables
	subcommands["scan-tables"] = cmdScanTables
}

// scan-tables: the scan-type enum (code, name) of pkg/scan/type.go, the two inferrer dispatch tables of
// pkg/mlrval/mlrval_infer.go and the inferrer each flag installs
func cmdScanTables(args []string, in *bufio.Scanner, out *bufio.Writer) {
	for i, n := range scan.TypeNames {
		fmt.Fprintf(out, "type %d %s\n", i, n)
	}
	normal, octal, sel := mlrval.VerifInferrerTables()
	for i, n := range normal {
		fmt.Fprintf(out, "normal %d %s\n", i, n)
	}
	for i, n := range octal {
		fmt.Fprintf(out, "octal %d %s\n", i, n)
	}
	for _, k := range []string{"default", "S", "A", "O"} {
		fmt.Fprintf(out, "select %s %s\n", k, sel[k])
	}
	// the scan type the real scanner assigns to one canonical example of each type name's comment in type.go
	for _, ex := range []string{"abc", "123", "0899", "0o377", "0377", "0xcafe", "0b1011", "1.5"} {
		fmt.Fprintf(out, "example %s %d\n", ex, int(scan.FindScanType(ex)))
	}
}

// scan: hex(string) per line -> scan type number
func cmdScan(args []string, in *bufio.Scanner, out *bufio.Writer) {
	for in.Scan() {
		b, err := hex.DecodeString(in.Text())
		if err != nil {
			fmt.Fprintln(out, "badhex")
			continue
		}
		fmt.Fprintln(out, int(scan.FindScanType(string(b))))
	}
}

// infer <default|S|A|O>: hex(string) per line -> "int <decimal>" | "float <bits hex>" | "string" | "empty" | other type name
func cmdInfer(args []string, in *bufio.Scanner, out *bufio.Writer) {
	mode := "default"
	if len(args) > 0 {
		mode = args[0]
	}
	switch mode {
	case "S":
		mlrval.SetInferrerStringOnly()
	case "A":
		mlrval.SetInferrerIntAsFloat()
	case "O":
		mlrval.SetInferrerOctalAsInt()
	}
	for in.Scan() {
		b, err := hex.DecodeString(in.Text())
		if err != nil {
			fmt.Fprintln(out, "badhex")
			continue
		}
		fmt.Fprintln(out, describe(mlrval.FromDeferredType(string(b))))
	}
}

func describe(mv *mlrval.Mlrval) string {
	switch mv.Type() {
	case mlrval.MT_INT:
		n, _ := mv.GetIntValue()
		return fmt.Sprintf("int %d", n)
	case mlrval.MT_FLOAT:
		f, _ := mv.GetFloatValue()
		return fmt.Sprintf("float %016x", math.Float64bits(f))
	case mlrval.MT_VOID:
		return "empty"
	default:
		return mv.GetTypeName()
	}
}

func cmdDigitTables(args []string, in *bufio.Scanner, out *bufio.Writer) {
	for c := 0; c < 256; c++ {
		d, o, h, f := scan.VerifDigitPredicates(byte(c))
		fmt.Fprintf(out, "%d %t %t %t %t\n", c, d, o, h, f)
	}
}
