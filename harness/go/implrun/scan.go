package main

import (
	"bufio"
	"encoding/hex"
	"fmt"
	"math"

	"github.com/johnkerl/miller/v6/pkg/mlrval"
	"github.com/johnkerl/miller/v6/pkg/scan"
)

func init() {
	subcommands["scan"] = cmdScan
	subcommands["infer"] = cmdInfer
	subcommands["digit-tables"] = cmdDigitTables
}

// scan: hex(string) per line -> scan type number
func cmdScan(args []string, in *bufio.Scanner, out *bufio.Writer) {
	for in.Scan() {
		b, err := hex.DecodeString(in.Text())
		if err != nil {
			fmt.Fprintln(out, "badhex")
			continue
		}
		fmt.Fprintln(out, int(scan.FindScanType(string(b))))
	}
}

// infer <default|S|A|O>: hex(string) per line -> "int <decimal>" | "float <bits hex>" | "string" | "empty" | other type name
func cmdInfer(args []string, in *bufio.Scanner, out *bufio.Writer) {
	mode := "default"
	if len(args) > 0 {
		mode = args[0]
	}
	switch mode {
	case "S":
		mlrval.SetInferrerStringOnly()
	case "A":
		mlrval.SetInferrerIntAsFloat()
	case "O":
		mlrval.SetInferrerOctalAsInt()
	}
	for in.Scan() {
		b, err := hex.DecodeString(in.Text())
		if err != nil {
			fmt.Fprintln(out, "badhex")
			continue
		}
		fmt.Fprintln(out, describe(mlrval.FromDeferredType(string(b))))
	}
}

func describe(mv *mlrval.Mlrval) string {
	switch mv.Type() {
	case mlrval.MT_INT:
		n, _ := mv.GetIntValue()
		return fmt.Sprintf("int %d", n)
	case mlrval.MT_FLOAT:
		f, _ := mv.GetFloatValue()
		return fmt.Sprintf("float %016x", math.Float64bits(f))
	case mlrval.MT_VOID:
		return "empty"
	default:
		return mv.GetTypeName()
	}
}

func cmdDigitTables(args []string, in *bufio.Scanner, out *bufio.Writer) {
	for c := 0; c < 256; c++ {
		d, o, h, f := scan.VerifDigitPredicates(byte(c))
		fmt.Fprintf(out, "%d %t %t %t %t\n", c, d, o, h, f)
	}
}
